#!/usr/bin/env python3
"""Generates /verif/MANIFEST.json. Edit the tables below, then run this script."""
import json, os, subprocess

ROOT = os.path.dirname(os.path.dirname(os.path.abspath(__file__)))

def repo_commits(prefix):
    out = subprocess.run(["git", "-C", "/repo", "log", "--format=%h %s"], capture_output=True, text=True).stdout
    return [l.split()[0] for l in out.splitlines() if l.split(" ", 1)[1].startswith(prefix)]

CHECKS = {
    "C15": dict(
        engine="s3sim", category="exploration", design_ref="DESIGN.md §4 C15",
        technique="deterministic simulation: real get_latest_volume/search against an in-process S3 endpoint behind the reqwest::get seam, seeded + (thorough) exhaustive bucket shapes, request log as call-count oracle, request-failure/latency injection",
        text="The real get_latest_volume (N=999) and the guarded search wrapper (N=1..64) run against a simulated rotating bucket put into a shape (N, newest, populated); the oracle is the reference bucket's newest directory and the endpoint's own request log. Quick: all shapes N<=16 + 20k seeded production shapes + 3k faulted runs; thorough: every shape for N<=64 and all 999x1000 production shapes. Exploration (sampling) in quick, complete enumeration of the shape space in thorough - still executions of the real code, not a proof.",
        note="Trusted: the in-process endpoint's S3 listing semantics (byte-order keys, string-prefix match, max-keys), reqwest::Response built from http::Response, tokio's paused clock. Upload times are distinct whole seconds. Not covered: the layers below reqwest::get."),
}

NOT_APPLICABLE = {
    "C01": "pure function of an in-memory byte vector (File::scan); no schedule, clock, fault or stream in the statement, so there is nothing for a simulator to control",
    "C02": "field-exact decoding is a fact about byte offsets for every input; no clause depends on how or when bytes arrive",
    "C05": "record tiling, the BZ test and the bzip2 round trip are pure functions of in-memory slices; the error clauses are API misuse, not faults",
    "C07": "pure arithmetic mapping from decoded fields to model values",
    "C08": "calendar arithmetic over a finite domain (decided by enumeration, which is a different technique); no clock is read",
    "C09": "pure function of a radial list / pair of sweeps",
    "C10": "accessor arithmetic over header values; no execution context",
    "C11": "layout, scaling and bit-mask facts; the 'count does not fit the frame' clause is about a malformed input value, not a fault",
    "C12": "layout, code tables and the alarm table; pure",
    "C14": "the summary is a pure fold over a message list",
    "C16": "string parsing and successor arithmetic; the 999->1 wrap is exercised in situ by C18 but the property itself is an enumeration/input claim",
    "C20": "compile-time feature matrix; nothing executes, so there is nothing to schedule or fault",
}

def main():
    checks = []
    for pid in sorted(CHECKS):
        c = CHECKS[pid]
        checks.append({
            "property_id": pid,
            "quick_cmd": f"./check {pid} quick",
            "thorough_cmd": f"./check {pid} thorough",
            "evidence_file": f"/verif/evidence/{pid}.json",
            "replay_cmd_template": "./check --replay {path}",
            "engine": c["engine"],
            "level_claimed": {"category": c["category"], "text": c["text"], "design_ref": c["design_ref"]},
            "level_note": c["note"],
            "technique": c["technique"],
        })
    manifest = {
        "version": 1,
        "setup_cmd": "cd /verif/sim && CARGO_NET_OFFLINE=true cargo build --release --offline",
        "hooks": {
            "guard": "--cfg nexrad_verif",
            "enable": "RUSTFLAGS='--cfg nexrad_verif' (set in /verif/sim/.cargo/config.toml); the harness depends on /repo/nexrad-{data,decode,model} by path, so every build uses /repo's working tree",
            "baseline_off_cmd": "cd /repo && cargo test --workspace --no-fail-fast --offline",
            "source_commits": repo_commits("verif hooks"),
            "add_only": True,
        },
        "engines": [
            {"name": "s3sim", "path": "/verif/sim/src/s3sim.rs", "serves_properties": ["C15", "C17", "C18", "C19", "C06"],
             "kind_free_text": "deterministic simulation: in-process S3 endpoint behind the reqwest::get seam, simulated wall clock behind the Utc::now seam, tokio current-thread runtime with paused (virtual) time, seeded choice tape, fault injection (latency, 404/500/503/403, request failure, mid-body cut, clock skew, cancellation)"},
            {"name": "streamsim", "path": "/verif/sim/src/streamsim.rs", "serves_properties": ["C03", "C04", "C06", "C13"],
             "kind_free_text": "deterministic simulation: simulated storage device behind Read+Seek (short reads, EINTR, EOF at any byte, hard I/O and seek errors, stored-byte damage), reference ICD encoders, counting allocator, seeded choice tape"},
        ],
        "checks": checks,
        "not_applicable": [{"property_id": k, "reason": v} for k, v in sorted(NOT_APPLICABLE.items())],
        "notes": "One technique only: deterministic simulation with fault injection (see DESIGN.md). Exit codes: 0 held, 1 VIOLATION, 2 harness error (never a verdict). VERIF_SEED selects the seed (default 20240804). Fix commits in /repo: " + ", ".join(repo_commits("fix:")),
    }
    with open(os.path.join(ROOT, "MANIFEST.json"), "w") as f:
        json.dump(manifest, f, indent=1)
        f.write("\n")
    print("wrote MANIFEST.json with", len(checks), "checks")

main()
