#!/usr/bin/env python3
"""Generates /verif/MANIFEST.json. Edit the tables below, then run this script."""
import json, os, subprocess

ROOT = os.path.dirname(os.path.dirname(os.path.abspath(__file__)))

def repo_commits(prefix):
    out = subprocess.run(["git", "-C", "/repo", "log", "--format=%h %s"], capture_output=True, text=True).stdout
    return [l.split()[0] for l in out.splitlines() if l.split(" ", 1)[1].startswith(prefix)]

CHECKS = {
    "C17": dict(
        engine="s3sim", category="exploration", design_ref="DESIGN.md §4 C17",
        technique="deterministic simulation with fault injection: the four public list/download calls against a randomly filled reference bucket served by an in-process S3 endpoint behind the reqwest::get seam; response faults (status codes, request failure, mid-body cut, garbled XML, bad Size/LastModified, missing headers); reference bucket and request log as oracles",
        text="Each case is one call of archive::{list_files,download_file} or realtime::{list_chunks_in_volume,download_chunk} against a bucket of 0..1001 objects whose keys carry XML-special, non-ASCII, URL-special (listings) characters and '/', with sizes up to 2^64-1 and both LastModified formats. Fault-free batch: listing = bucket order, final path segment, LastModified; truncated archive listing = error; download = stored bytes, Last-Modified, identifier asked for; the endpoint's log shows exactly one request for the expected key/prefix on the right bucket. Fault batch, relaxed narrowly: 404 -> not-found error, other non-200 download -> error, bad Size -> error, request failure / cut body -> error, garbled listing -> value or error, never a panic. Sampling.",
        note="Trusted: the endpoint's S3 semantics (byte-order keys, string prefix, max-keys/IsTruncated, XML escaping, percent-decoding). Keys used for downloads are limited to the characters the statement lists."),
    "C18": dict(
        engine="s3sim", category="exploration", design_ref="DESIGN.md §4 C18",
        technique="deterministic simulation with fault injection: the real poll_chunks under tokio's paused clock against a simulated rotating bucket, uploader (attempt-adaptive / time-scripted) and scripted consumer; transport faults, clock skew, stop/drop at every scheduling point; online and history oracles; seeded search with tape minimisation and replay",
        text="One polling session per run: start directory biased to 997/998/999/1/2, 1..55 chunks present, 0..997 older volumes; chunks become visible after 0/1/2 failed attempts, at scripted times (4/7/11 s, bursts, long gaps) or never; consumer stops / drops the chunk or stats receiver after k deliveries; transient 404, 5xx/403, request failures, body cuts, listing 5xx and 404, latency, slow bodies, one start-up fault, clock skew/jump, a client clock that moves between reads. Oracle: first delivery inside the linearisation window of 'newest chunk', strictly advancing series with 999->1 wrap, payload/key/upload time of every delivery against the reference bucket, Ok only after stop with <= 1 later delivery, PollingAsyncError only with a dropped receiver, ExpectedChunkNotFound only after >= 3 failed attempts, start-up errors only with an injected cause, bounded virtual-time liveness, no panic. Thorough adds complete rotations through all 999 directories. Sampling of schedules and fault sequences; evidence, not proof.",
        note="Trusted: history model (55-chunk volumes, a directory about to be reused is empty, second-resolution monotone Last-Modified), tokio's paused clock, the scripted consumer acting only at transport scheduling points (the poller touches its channels only there). A response that never arrives is not injected."),
    "C19": dict(
        engine="s3sim", category="exploration", design_ref="DESIGN.md §4 C19",
        technique="deterministic simulation as history source + executable reference model: timing histories recorded from simulated polling sessions (and seeded synthetic ones) replayed step by step through the public API next to a 40-line reference model; simulated clock for identifiers without upload time",
        text="Histories (cut list, previous sequence, duration, attempts) come from simulated polling sessions under faults and from a seeded generator reaching the quantifier's bounds (0..32 cuts x both resolutions, sequences to 200, 50 samples per key, 0..60 s, 1..5 attempts); after every add_timing the statistics (sorted), the estimates with and without history and the chunk-to-cut mapping are compared with the model; estimates are never earlier than the previous upload time. Weakest fit for the technique: no fault or schedule can change these functions, the simulation only supplies histories (said so in the evidence).",
        note="Trusted: the reference model's reading of the statement ((floor(mean attempts) - 1) s adjustment; sample keyed by the following chunk's characteristics)."),
    "C03": dict(
        engine="streamsim", category="fault_enumeration", design_ref="DESIGN.md §4 C03",
        technique="deterministic simulation: message streams from reference ICD encoders served through a simulated storage device (short reads, EINTR, end of file at every byte) to the real decode_messages / Record::messages, compared with the reference record",
        text="Streams of 0..300 messages over all 256 type codes (type-31 of any shape incl. permuted pointer tables) are decoded through SimReader in three batches: clean (count, order, header, kind, equality with the message decoded alone, reader position), short reads + EINTR (identical list), an end of file at every byte of small streams / at every boundary -1/0/+1/+27/+28/+29 and drawn offsets of large ones (Ok(prefix) in a header fragment, Err inside a body), and the same stream embedded after a junk prefix with the reader already positioned at its start. Fault enumeration: the cut positions of small streams are enumerated completely, stream shapes are sampled.",
        note="Trusted: the reference encoders' reading of ICD 2620002W framing; SimReader's Cursor-like seek semantics. Hard I/O errors are outside the statement and not injected here."),
    "C04": dict(
        engine="streamsim", category="fault_enumeration", design_ref="DESIGN.md §4 C04",
        technique="deterministic simulation with fault injection: stored-byte damage, field-directed extremes, random images and device faults (short reads, EINTR, hard I/O error, failing seek, EOF) served through a simulated device to every decode entry point; panic capture, device-operation budget and counting allocator as oracles",
        text="Every decoding entry point (decode_messages, header, contents for all 256 type codes, type-31, RDA status, VCP, clutter filter map) plus radial()/into_radial() of whatever decoded is driven over damaged valid streams, field-directed extremes at known offsets, random images, every prefix of small streams under device faults, crafted memory-amplification attempts (incl. chains of messages whose huge block covers their successors), valid messages beyond ICD ranges (gates > 1840, arbitrary code bytes, VCP size/cut-count extremes), a quarter of the runs with trace logging enabled. Oracle: no panic (catch_unwind, overflow checks and debug assertions on), operation budget 64*len+100000, heap peak <= 8 MiB + 64*len. Sampling of an unbounded input space; the fault kinds are enumerated, the inputs are not.",
        note="Trusted: counting global allocator (heap only, single-threaded worker), wall-clock watchdog for loops that never touch the device. Stack depth and CPU time are not bounded."),
    "C06": dict(
        engine="s3sim", category="fault_enumeration", design_ref="DESIGN.md §4 C06",
        technique="deterministic simulation with fault injection: damaged, truncated, short and empty objects stored in a simulated bucket, fetched with the real download_file/download_chunk through the reqwest::get seam (short object, mid-body connection cut, framed bodies) and handed to the whole volume/record/chunk API under panic capture",
        text="Objects (every length 0..=64 over four alphabets x six size-prefix variants; every truncation point of small valid volumes and chunks; valid volumes with stored-byte damage, size-prefix extremes, bzip2 damage and payloads damaged or cut before compression) are downloaded through the simulated endpoint and every public operation of Chunk, File and Record (incl. decompress -> messages, scan, Debug) is applied. Oracle: value or error, no panic, returns, record list stays inside the file, a cut connection is an error. The boundary space is enumerated completely; damaged volumes are sampled.",
        note="Trusted: in-process endpoint and reqwest body collection; memory is outside C06's statement. Relies on the C04 repairs because messages()/scan() run the decoder."),
    "C13": dict(
        engine="streamsim", category="fault_enumeration", design_ref="DESIGN.md §4 C13",
        technique="deterministic simulation: clutter filter maps from a reference encoder served through a simulated device (short reads, EINTR, end of file at every byte / structural boundary) to the real decode_clutter_filter_map, compared with the encoded structure",
        text="Maps with 0..=255 segments x 360 azimuths x 0..=25 zones (one azimuth sometimes up to 65535 zones) are decoded clean and under short reads/EINTR and compared field by field with the reference structure (segment numbering, azimuth 0..=359, zone order and values, op-code meaning, generation date-time); an end of file at every byte of one-segment maps and at sampled structural and segment boundaries -1/0/+1 of large maps must be an error.",
        note="Trusted: reference encoder's reading of ICD table XIV. Segment numbering base is not fixed by the statement; only consecutiveness is checked."),
    "C15": dict(
        engine="s3sim", category="exploration", design_ref="DESIGN.md §4 C15",
        technique="deterministic simulation: real get_latest_volume/search against an in-process S3 endpoint behind the reqwest::get seam, seeded + (thorough) exhaustive bucket shapes, request log as call-count oracle, request-failure/latency injection",
        text="The real get_latest_volume (N=999) and the guarded search wrapper (N=1..64) run against a simulated rotating bucket put into a shape (N, newest, populated); the oracle is the reference bucket's newest directory and the endpoint's own request log. Fault section: request failures and HTTP 404/500/503/403 on listings (right volume or error, never a wrong one); concurrent section: 2-3 discoveries for different sites joined on one runtime (each reports its own requests); client clock offset +-300 s in half of the runs. Quick: all shapes N<=24 + 30k seeded production shapes + 6k faulted + 1.2k concurrent; thorough: every shape for N<=64 and all 999x1000 production shapes + 120k faulted + 60k concurrent. Exploration (sampling) in quick, complete enumeration of the shape space in thorough - still executions of the real code, not a proof.",
        note="Trusted: the in-process endpoint's S3 listing semantics (byte-order keys, string-prefix match, max-keys), reqwest::Response built from http::Response, tokio's paused clock. Upload times are distinct whole seconds. Not covered: the layers below reqwest::get."),
}

NOT_APPLICABLE = {
    "C01": "pure function of an in-memory byte vector (File::scan); no schedule, clock, fault or stream in the statement, so there is nothing for a simulator to control",
    "C02": "field-exact decoding is a fact about byte offsets for every input; no clause depends on how or when bytes arrive",
    "C05": "record tiling, the BZ test and the bzip2 round trip are pure functions of in-memory slices; the error clauses are API misuse, not faults",
    "C07": "pure arithmetic mapping from decoded fields to model values",
    "C08": "calendar arithmetic over a finite domain (decided by enumeration, which is a different technique); no clock is read",
    "C09": "pure function of a radial list / pair of sweeps",
    "C10": "accessor arithmetic over header values; no execution context",
    "C11": "layout, scaling and bit-mask facts; the 'count does not fit the frame' clause is about a malformed input value, not a fault",
    "C12": "layout, code tables and the alarm table; pure",
    "C14": "the summary is a pure fold over a message list",
    "C16": "string parsing and successor arithmetic; the 999->1 wrap is exercised in situ by C18 but the property itself is an enumeration/input claim",
    "C20": "compile-time feature matrix; nothing executes, so there is nothing to schedule or fault",
}

def main():
    checks = []
    for pid in sorted(CHECKS):
        c = CHECKS[pid]
        checks.append({
            "property_id": pid,
            "quick_cmd": f"./check {pid} quick",
            "thorough_cmd": f"./check {pid} thorough",
            "evidence_file": f"/verif/evidence/{pid}.json",
            "replay_cmd_template": "./check --replay {path}",
            "engine": c["engine"],
            "level_claimed": {"category": c["category"], "text": c["text"], "design_ref": c["design_ref"]},
            "level_note": c["note"],
            "technique": c["technique"],
        })
    manifest = {
        "version": 1,
        "setup_cmd": "cd /verif/sim && CARGO_NET_OFFLINE=true cargo build --release --offline && CARGO_NET_OFFLINE=true cargo build --profile plain --offline",
        "hooks": {
            "guard": "--cfg nexrad_verif",
            "enable": "RUSTFLAGS='--cfg nexrad_verif' (set in /verif/sim/.cargo/config.toml); the harness depends on /repo/nexrad-{data,decode,model} by path, so every build uses /repo's working tree; two builds: --release (debug assertions and overflow checks on) and --profile plain (off)",
            "baseline_off_cmd": "cd /repo && cargo test --workspace --no-fail-fast --offline",
            "source_commits": repo_commits("verif hooks"),
            "add_only": True,
        },
        "engines": [
            {"name": "s3sim", "path": "/verif/sim/src/s3sim.rs", "serves_properties": ["C15", "C17", "C18", "C19", "C06"],
             "kind_free_text": "deterministic simulation: in-process S3 endpoint behind the reqwest::get seam, simulated wall clock behind the Utc::now seam, tokio current-thread runtime with paused (virtual) time, seeded choice tape, fault injection (latency, 404/500/503/403, request failure, mid-body cut, clock skew, cancellation)"},
            {"name": "streamsim", "path": "/verif/sim/src/streamsim.rs", "serves_properties": ["C03", "C04", "C06", "C13"],
             "kind_free_text": "deterministic simulation: simulated storage device behind Read+Seek (short reads, EINTR, EOF at any byte, hard I/O and seek errors, stored-byte damage), reference ICD encoders, counting allocator, seeded choice tape"},
        ],
        "checks": checks,
        "not_applicable": [{"property_id": k, "reason": v} for k, v in sorted(NOT_APPLICABLE.items())],
        "notes": "One technique only: deterministic simulation with fault injection (see DESIGN.md). Exit codes: 0 held, 1 VIOLATION, 2 harness error (never a verdict). VERIF_SEED selects the seed (default 20240804). Every check runs its plan on 16 single-threaded worker processes in three build/environment variants (std: debug assertions + overflow checks; plain: plain release build; tz: non-UTC local time zone) and a quarter of the runs with trace logging enabled; replay files record their variant. Sensitivity: SENSITIVITY.md (48/48 hand-written mutants, 5/5 controls quiet, 94/96 independent sub-agent changes; the 2 misses are outside the statements). Fix commits in /repo: " + ", ".join(repo_commits("fix:")),
    }
    with open(os.path.join(ROOT, "MANIFEST.json"), "w") as f:
        json.dump(manifest, f, indent=1)
        f.write("\n")
    print("wrote MANIFEST.json with", len(checks), "checks")

main()
