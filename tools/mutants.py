#!/usr/bin/env python3
"""Sensitivity run: applies one hand-written, realistic property-breaking edit at a time to /repo
(working tree only, never committed), confirms that the 37 baseline tests still pass with the guard
off, runs the relevant quick check and expects exit 1 with a VIOLATION line, then reverts the edit
(git checkout). Also understands the sub-agent changes kept under /verif/seeded/<id>/patch.diff.

usage: tools/mutants.py [--only C18] [--name substring] [--seeded] [--no-tests]
Results are appended to /verif/SENSITIVITY.md by tools/mutants.py --write-report (reads mutants.log.json).
"""
import json, os, subprocess, sys, time, glob

REPO = "/repo"
ROOT = os.path.dirname(os.path.dirname(os.path.abspath(__file__)))

# (property, name, file, old, new, needs)
M = [
 # ---- C15
 ("C15", "EQUIVALENT-CONTROL search-first-phase-guard-removed (phase 1 assigns once; must NOT alarm)", "nexrad-data/src/aws/realtime/search.rs",
  "if mid_value_ref <= some_target && mid_value_ref > nearest_value.as_ref() {", "if mid_value_ref <= some_target {", "specific (N,p,c) shapes"),
 ("C15", "search-second-phase-overwrites (revert fix e2626ed, 2nd site)", "nexrad-data/src/aws/realtime/search.rs",
  "if value_ref.is_some() && value_ref <= some_target && value_ref > nearest_value.as_ref() {", "if value_ref.is_some() && value_ref <= some_target {", "specific shapes"),
 ("C15", "998-directories (revert fix 5ff87ee)", "nexrad-data/src/aws/realtime/get_latest_volume.rs",
  "search(999, ", "search(998, ", "newest directory = 999"),
 ("C15", "index-mapping-plus-one-dropped-in-result", "nexrad-data/src/aws/realtime/get_latest_volume.rs",
  ".map(|volume| volume.map(|index| VolumeIndex::new(index + 1)))?;", ".map(|volume| volume.map(|index| VolumeIndex::new(index.max(1))))?;", "any shape with newest != 1"),
 ("C15", "first-chunk-replaced-by-last", "nexrad-data/src/aws/realtime/get_latest_volume.rs",
  "list_chunks_in_volume(site, VolumeIndex::new(volume + 1), 1).await?;\n            Ok(chunks.first()", "list_chunks_in_volume(site, VolumeIndex::new(volume + 1), 100).await?;\n            Ok(chunks.last()", "directories whose last chunk is newer than the next directory's first"),
 # ---- C18
 ("C18", "successor-skips-at-54", "nexrad-data/src/aws/realtime/chunk_identifier.rs",
  "if sequence < 55 {\n            let next_sequence = sequence + 1;", "if sequence < 55 {\n            let next_sequence = if sequence == 53 { 55 } else { sequence + 1 };", "run crossing sequence 53"),
 ("C18", "wrap-at-998", "nexrad-data/src/aws/realtime/chunk_identifier.rs",
  "if volume > 999 {", "if volume > 998 {", "run crossing volume 998"),
 ("C18", "retry-budget-2-attempts", "nexrad-data/src/aws/realtime/poll_chunks.rs",
  "try_resiliently(|| download_chunk(site, &next_chunk_id), 500, 5).await;", "try_resiliently(|| download_chunk(site, &next_chunk_id), 500, 2).await;", "a chunk visible only on the 3rd attempt"),
 ("C18", "start-takes-first-chunk-of-volume", "nexrad-data/src/aws/realtime/poll_chunks.rs",
  "    let chunks = list_chunks_in_volume(site, volume, 100).await?;\n    Ok(chunks.last().cloned())", "    let chunks = list_chunks_in_volume(site, volume, 100).await?;\n    Ok(chunks.first().cloned())", "start with more than one chunk present"),
 ("C18", "stop-checked-after-fetch", "nexrad-data/src/aws/realtime/poll_chunks.rs",
  "        previous_chunk_time = next_chunk_id.date_time();\n        previous_chunk_id = next_chunk_id;\n    }", "        previous_chunk_time = next_chunk_id.date_time();\n        previous_chunk_id = next_chunk_id;\n        if previous_chunk_id.sequence() == Some(7) { while stop_rx.try_recv().is_ok() {} }\n    }", "stop sent while chunk 7 is being fetched"),
 ("C18", "EQUIVALENT-CONTROL identifier-prefers-listing-time (listing and header stamps agree; must NOT alarm)", "nexrad-data/src/aws/realtime/download_chunk.rs",
  "            downloaded_object.metadata.last_modified,\n        ),", "            chunk_id.date_time().or(downloaded_object.metadata.last_modified),\n        ),", "first delivery (identifier from a listing carries the listing time - same; control-ish)"),
 ("C18", "download-key-uses-wrong-volume-after-wrap", "nexrad-data/src/aws/realtime/download_chunk.rs",
  "        chunk_id.volume().as_number(),\n        chunk_id.name()\n    );", "        chunk_id.volume().as_number().max(2),\n        chunk_id.name()\n    );", "delivery from volume 1"),
 ("C18", "send-error-swallowed", "nexrad-data/src/aws/realtime/poll_chunks.rs",
  "        tx.send((next_chunk_id.clone(), next_chunk))\n            .map_err(|_| AWSError::PollingAsyncError)?;", "        let _ = tx.send((next_chunk_id.clone(), next_chunk));", "consumer dropped while polling continues"),
 ("C18", "LEGAL-CONTROL new-volume-joins-at-first-listed (allowed by the statement; must NOT alarm)", "nexrad-data/src/aws/realtime/poll_chunks.rs",
  "    chunks\n        .last()\n        .cloned()\n        .ok_or(Error::AWS(AWSError::ExpectedChunkNotFound))", "    chunks\n        .first()\n        .cloned()\n        .ok_or(Error::AWS(AWSError::ExpectedChunkNotFound))", "legal by the statement? joins next volume at chunk 1 (control: must NOT alarm)"),
 ("C18", "list-status-ignored (revert fix 4dee522)", "nexrad-data/src/aws/s3/list_objects.rs",
  "    let response = response.error_for_status().map_err(S3ListObjectsError)?;\n", "", "5xx on a listing during discovery"),
 # ---- C17
 ("C17", "truncated-ignored", "nexrad-data/src/aws/archive/list_files.rs",
  "if list_result.truncated {", "if list_result.truncated && list_result.objects.is_empty() {", "> 1000 objects under the prefix"),
 ("C17", "EQUIVALENT-CONTROL key-assignment-instead-of-append (xml-rs coalesces character events; must NOT alarm)", "nexrad-data/src/aws/s3/list_objects.rs",
  "BucketObjectField::Key => item.key.push_str(&chars),", "BucketObjectField::Key => item.key = chars.clone(),", "only if the XML reader splits character events (control if it coalesces)"),
 ("C17", "size-parse-error-swallowed", "nexrad-data/src/aws/s3/list_objects.rs",
  "                            item.size = chars.parse().map_err(|_| {\n                                warn!(\"Error parsing object size: {}\", chars);\n                                AWSError::S3ListObjectsDecodingError\n                            })?;", "                            item.size = chars.parse().unwrap_or(0);", "non-numeric or overflowing Size"),
 ("C17", "404-mapped-to-generic-error", "nexrad-data/src/aws/s3/download_object.rs",
  "        StatusCode::NOT_FOUND => Err(Error::AWS(AWSError::S3ObjectNotFoundError)),\n", "", "download of a missing object"),
 ("C17", "partial-content-accepted", "nexrad-data/src/aws/s3/download_object.rs",
  "        StatusCode::OK => {", "        StatusCode::OK | StatusCode::PARTIAL_CONTENT | StatusCode::NO_CONTENT => {", "HTTP 206/204 response"),
 ("C17", "last-modified-from-previous-object", "nexrad-data/src/aws/s3/list_objects.rs",
  "                    if let Some(item) = object.take() {\n                        objects.push(item);", "                    if let Some(mut item) = object.take() {\n                        if item.last_modified.is_none() { item.last_modified = objects.last().and_then(|o: &BucketObject| o.last_modified); }\n                        objects.push(item);", "an object whose LastModified does not parse, after one that does"),
 ("C17", "EQUIVALENT-CONTROL download-key-site-from-name-uppercased (sites are upper-case; must NOT alarm)", "nexrad-data/src/aws/archive/download_file.rs",
  "let key = format!(\"{}/{}/{}\", date.format(\"%Y/%m/%d\"), site, identifier.name());", "let key = format!(\"{}/{}/{}\", date.format(\"%Y/%m/%d\"), &identifier.name()[..4.min(identifier.name().len())].to_uppercase(), identifier.name());", "control: equivalent for upper-case sites (must NOT alarm unless names are lower-case)"),
 ("C17", "list-name-concatenation (revert fix cb85a3e)", "nexrad-data/src/aws/archive/list_files.rs",
  "let name = object.key.rsplit('/').next().unwrap_or(object.key.as_ref());", "let name = &object.key.split('/').skip(4).collect::<String>();", "key with an extra '/'"),
 # ---- C19
 ("C19", "five-chunks-per-half-degree-cut", "nexrad-data/src/aws/realtime/get_elevation_from_chunk.rs",
  "            6 // 720", "            5 // 720", "half-degree cut"),
 ("C19", "walk-uses-strict-less", "nexrad-data/src/aws/realtime/get_elevation_from_chunk.rs",
  "if sequence <= chunk_count {", "if sequence < chunk_count {", "sequence on a cut boundary"),
 ("C19", "window-cap-11", "nexrad-data/src/aws/realtime/chunk_timing_stats.rs",
  "if entry.len() > MAX_TIMING_SAMPLES {", "if entry.len() > MAX_TIMING_SAMPLES + 1 {", "11+ samples for one key"),
 ("C19", "pop-back-instead-of-front", "nexrad-data/src/aws/realtime/chunk_timing_stats.rs",
  "entry.pop_front();", "entry.pop_back();", "11+ samples for one key"),
 ("C19", "default-11s-becomes-10s", "nexrad-data/src/aws/realtime/estimate_next_chunk_time.rs",
  "ChronoDuration::seconds(11)", "ChronoDuration::seconds(10)", "CS waveform cut without history"),
 ("C19", "end-chunk-10s-dropped", "nexrad-data/src/aws/realtime/estimate_next_chunk_time.rs",
  ".add(ChronoDuration::seconds(10)),", ".add(ChronoDuration::seconds(0)),", "previous sequence 55"),
 ("C19", "range-check-1-to-54", "nexrad-data/src/aws/realtime/estimate_next_chunk_time.rs",
  "if !((1..=55).contains(&previous_sequence)) {", "if !((1..55).contains(&previous_sequence)) {", "previous sequence 55"),
 ("C19", "attempt-adjustment-rounds", "nexrad-data/src/aws/realtime/estimate_next_chunk_time.rs",
  "chrono::Duration::seconds(avg_attempts as i64 - 1)", "chrono::Duration::seconds(avg_attempts.round() as i64 - 1)", "mean attempts with fraction >= .5"),
 # ---- C03
 ("C03", "frame-length-2428", "nexrad-decode/src/messages.rs",
  "let mut message_buffer = [0; 2432 - size_of::<MessageHeader>()];", "let mut message_buffer = [0; 2428 - size_of::<MessageHeader>()];", "a fixed frame followed by another message"),
 ("C03", "reader-left-after-last-pointer (revert fix afc2c35)", "nexrad-decode/src/messages/digital_radar_data.rs",
  "    reader.seek(SeekFrom::Start(message_end))?;\n", "", "permuted pointer table followed by another message"),
 ("C03", "body-error-swallowed-into-short-list", "nexrad-decode/src/messages.rs",
  "        let contents = decode_message_contents(reader, header.message_type())?;", "        let contents = match decode_message_contents(reader, header.message_type()) {\n            Ok(c) => c,\n            Err(_) => break,\n        };", "stream cut inside a body"),
 ("C03", "fragment-becomes-error", "nexrad-decode/src/messages.rs",
  "    while let Ok(header) = decode_message_header(reader) {", "    loop {\n        let header = match decode_message_header(reader) {\n            Ok(h) => h,\n            Err(e) => {\n                if messages.is_empty() { break; }\n                return Err(e);\n            }\n        };", "trailing fragment after >= 1 message"),
 ("C03", "type-29-treated-as-variable-length", "nexrad-decode/src/messages.rs",
  "if message_type == MessageType::RDADigitalRadarDataGenericFormat {", "if message_type == MessageType::RDADigitalRadarDataGenericFormat || message_type == MessageType::Reserved5 {", "a type-29 frame in the stream"),
 # ---- C04
 ("C04", "unknown-block-panics (revert fix ad192c0)", "nexrad-decode/src/messages/digital_radar_data.rs",
  "                    _ => {\n                        return Err(Error::DecodingError(format!(\n                            \"unknown generic data block type: {:?}\",\n                            data_block_id\n                        )))\n                    }", "                    _ => panic!(\"Unknown generic data block type: {:?}\", data_block_id),", "damaged block name"),
 ("C04", "gate-buffer-without-div-8", "nexrad-decode/src/messages/digital_radar_data/generic_data_block.rs",
  "let word_size_bytes = header.data_word_size as usize / 8;", "let word_size_bytes = header.data_word_size as usize;", "memory / framing with any moment block (also breaks C03)"),
 ("C04", "pointer-table-capacity-blowup", "nexrad-decode/src/messages/digital_radar_data.rs",
  "    let mut pointers_raw = vec![0; pointers_space];", "    let mut pointers_raw = vec![0; pointers_space];\n    let _scratch: Vec<u8> = Vec::with_capacity(message.header.data_block_count as usize * 4096);", "block count 65535 (268 MB reservation from a 60-byte message)"),
 ("C04", "reader-left-after-last-pointer (revert fix afc2c35)", "nexrad-decode/src/messages/digital_radar_data.rs",
  "    reader.seek(SeekFrom::Start(message_end))?;\n", "", "overlapping blocks shared by many messages (memory)"),
 ("C04", "vcp-cut-count-preallocates", "nexrad-decode/src/messages/volume_coverage_pattern.rs",
  "let mut elevations: Vec<ElevationDataBlock> = Vec::new();", "let mut elevations: Vec<ElevationDataBlock> = Vec::with_capacity(header.number_of_elevation_cuts as usize * 4096);", "cut count 65535"),
 ("C04", "radial-conversion-unwraps-date", "nexrad-decode/src/messages/digital_radar_data/message.rs",
  "                .ok_or(Error::MessageMissingDateError)?\n                .timestamp_millis(),\n            self.header.azimuth_number,\n            self.header.azimuth_angle,\n            self.header.azimuth_resolution_spacing as f32 * 0.5,\n            match self.header.radial_status() {\n                RadialStatus::ElevationStart => ModelRadialStatus::ElevationStart,\n                RadialStatus::IntermediateRadialData => ModelRadialStatus::IntermediateRadialData,\n                RadialStatus::ElevationEnd => ModelRadialStatus::ElevationEnd,\n                RadialStatus::VolumeScanStart => ModelRadialStatus::VolumeScanStart,\n                RadialStatus::VolumeScanEnd => ModelRadialStatus::VolumeScanEnd,\n                RadialStatus::ElevationStartVCPFinal => ModelRadialStatus::ElevationStartVCPFinal,\n            },\n            self.header.elevation_number,\n            self.header.elevation_angle,\n            self.reflectivity_data_block\n                .as_ref()", "                .ok_or(Error::MessageMissingDateError)?\n                .timestamp_millis(),\n            self.header.azimuth_number,\n            self.header.azimuth_angle,\n            self.header.azimuth_resolution_spacing as f32 * 0.5,\n            match self.header.radial_status {\n                0 => ModelRadialStatus::ElevationStart,\n                1 => ModelRadialStatus::IntermediateRadialData,\n                2 => ModelRadialStatus::ElevationEnd,\n                3 => ModelRadialStatus::VolumeScanStart,\n                4 => ModelRadialStatus::VolumeScanEnd,\n                5 => ModelRadialStatus::ElevationStartVCPFinal,\n                _ => unreachable!(),\n            },\n            self.header.elevation_number,\n            self.header.elevation_angle,\n            self.reflectivity_data_block\n                .as_ref()", "radial status byte > 5 in a message that decodes"),
 # ---- C06
 ("C06", "chunk-new-unguarded (revert part of 2dde980)", "nexrad-data/src/aws/realtime/chunk.rs",
  "if data.get(0..3) == Some(b\"AR2\".as_slice()) {", "if data.len() >= 1 && data[0..3].as_ref() == b\"AR2\" {", "1- or 2-byte object"),
 ("C06", "chunk-bz-sniff-unguarded", "nexrad-data/src/aws/realtime/chunk.rs",
  "if data.get(4..6) == Some(b\"BZ\".as_slice()) {", "if data.len() > 4 && data[4..6].as_ref() == b\"BZ\" {", "exactly 5-byte object"),
 ("C06", "file-records-unguarded", "nexrad-data/src/volume/file.rs",
  "split_compressed_records(self.0.get(size_of::<Header>()..).unwrap_or_default())", "split_compressed_records(&self.0[size_of::<Header>().min(self.0.len().max(23))..])", "objects shorter than 23 bytes"),
 ("C06", "record-size-clamp-removed", "nexrad-data/src/volume/record.rs",
  "let record_end = (position + record_size + 4).min(data.len());", "let record_end = position + record_size + 4;", "size prefix larger than the remainder"),
 ("C06", "compressed-test-off-by-one", "nexrad-data/src/volume/record.rs",
  "self.data().len() >= 6 && self.data()[4..6].as_ref() == b\"BZ\"", "self.data().len() >= 5 && self.data()[4..6].as_ref() == b\"BZ\"", "exactly 5-byte record"),
 ("C06", "size-prefix-as-usize-not-abs", "nexrad-data/src/volume/record.rs",
  "let record_size = i32::from_be_bytes(record_size).unsigned_abs() as usize;", "let record_size = i32::from_be_bytes(record_size) as usize;", "negative size prefix (wraps to ~2^64, overflow on add)"),
 # ---- C13
 ("C13", "359-azimuths", "nexrad-decode/src/messages/clutter_filter_map.rs",
  "for azimuth_number in 0..360 {", "for azimuth_number in 0..359 {", "any map with >= 1 segment"),
 ("C13", "zone-loop-drops-last-when-many", "nexrad-decode/src/messages/clutter_filter_map.rs",
  "for _ in 0..range_zone_count {", "for _ in 0..range_zone_count.min(20) {", "an azimuth with 21..25 zones"),
 ("C13", "partial-result-on-eof", "nexrad-decode/src/messages/clutter_filter_map.rs",
  "            let azimuth_segment_header: AzimuthSegmentHeader = deserialize(reader)?;", "            let azimuth_segment_header: AzimuthSegmentHeader = match deserialize(reader) {\n                Ok(h) => h,\n                Err(_) if elevation_segment_number > 0 => return Ok(message),\n                Err(e) => return Err(e),\n            };", "body cut at an azimuth boundary in segment >= 2"),
 ("C13", "segment-count-widened", "nexrad-decode/src/messages/clutter_filter_map.rs",
  "let elevation_segment_count = header.elevation_segment_count as u8;", "let elevation_segment_count = (header.elevation_segment_count as u8).min(200);", "more than 200 segments"),
 ("C13", "op-code-2-and-1-swapped", "nexrad-decode/src/messages/clutter_filter_map/range_zone.rs",
  "            1 => OpCode::BypassMapInControl,\n            2 => OpCode::ForceFilter,", "            2 => OpCode::BypassMapInControl,\n            1 => OpCode::ForceFilter,", "zones with op code 1 or 2"),
]

def sh(cmd, cwd=None, timeout=3600):
    return subprocess.run(cmd, shell=True, cwd=cwd, capture_output=True, text=True, timeout=timeout)

def baseline_tests():
    r = sh("cargo test --workspace --no-fail-fast --offline 2>&1", cwd=REPO)
    passed = sum(int(l.split()[3]) for l in r.stdout.splitlines() if l.startswith("test result: ok."))
    failed = "FAILED" in r.stdout or "error[" in r.stdout or "error:" in r.stdout
    return passed, failed, r.stdout[-2000:]

def run_check(prop):
    t0 = time.time()
    r = sh(f"./check {prop} quick 2>&1", cwd=ROOT)
    viol = [l for l in r.stdout.splitlines() if l.startswith("VIOLATION")]
    first = [l for l in r.stdout.splitlines() if l.startswith("violation:")]
    return r.returncode, len(viol), (first[0][:300] if first else (r.stdout.splitlines()[-1][:300] if r.stdout else "")), time.time() - t0

def clean_repo():
    sh("git checkout -- . && git clean -fdq -- nexrad nexrad-data nexrad-decode nexrad-model", cwd=REPO)
    sh(f"rm -f {ROOT}/replays/*.json")

def main():
    only = None; name = None; seeded = False; tests = True
    a = sys.argv[1:]
    while a:
        x = a.pop(0)
        if x == "--only": only = a.pop(0)
        elif x == "--name": name = a.pop(0)
        elif x == "--seeded": seeded = True
        elif x == "--no-tests": tests = False
    if sh("git status --porcelain --untracked-files=no", cwd=REPO).stdout.strip():
        print("refusing: /repo has uncommitted changes"); sys.exit(2)
    results = []
    todo = []
    if seeded:
        for d in sorted(glob.glob(f"{ROOT}/seeded/*/")):
            meta = json.load(open(d + "meta.json"))
            todo.append((meta["property"], "seeded/" + os.path.basename(d.rstrip("/")), d + "patch.diff", None, None, meta.get("needs", "")))
    else:
        todo = M
    for (prop, mname, f, old, new, needs) in todo:
        if only and prop != only: continue
        if name and name not in mname: continue
        clean_repo()
        if old is None:
            r = sh(f"git apply {f}", cwd=REPO)
            if r.returncode != 0:
                results.append(dict(property=prop, mutant=mname, status="patch-does-not-apply", detail=r.stderr[-300:])); print(results[-1]); continue
        else:
            p = os.path.join(REPO, f)
            s = open(p).read()
            if s.count(old) != 1:
                results.append(dict(property=prop, mutant=mname, status="anchor-not-found", detail=f"{s.count(old)} occurrences")); print(results[-1]); continue
            open(p, "w").write(s.replace(old, new))
        entry = dict(property=prop, mutant=mname, needs=needs)
        if tests:
            passed, failed, tail = baseline_tests()
            entry["baseline_tests_passed"] = passed
            if failed or passed != 37:
                entry["status"] = "baseline-tests-fail-or-do-not-compile"; entry["detail"] = tail[-400:]
                results.append(entry); print(entry); clean_repo(); continue
        rc, nviol, first, secs = run_check(prop)
        entry.update(check_exit=rc, violation_lines=nviol, first=first, seconds=round(secs, 1))
        entry["status"] = "caught" if rc == 1 and nviol > 0 else ("harness-error" if rc == 2 else "MISSED")
        if "CONTROL" in mname:
            entry["status"] = "control-quiet" if rc == 0 else "CONTROL-FALSE-ALARM"
        results.append(entry); print(json.dumps(entry)); sys.stdout.flush()
        clean_repo()
    clean_repo()
    log = os.path.join(ROOT, "mutants.log.json")
    prev = json.load(open(log)) if os.path.exists(log) else []
    keyed = {(e["property"], e["mutant"]): e for e in prev}
    for e in results: keyed[(e["property"], e["mutant"])] = e
    json.dump(list(keyed.values()), open(log, "w"), indent=1)
    print("caught", sum(1 for e in results if e["status"] == "caught"), "of", len(results))

main()
