#!/bin/bash
# Determinism self-test: every check's runs are executed (a) twice in separate processes, (b) split
# over 4 and over 16 separate processes (what different worker counts do); the per-run
# fingerprints (hash of the complete event log), class hashes, tape lengths and verdicts must be
# identical. Usage: tools/determinism.sh [runs-per-section, default 400]
set -u
N="${1:-400}"
ROOT="$(cd "$(dirname "${BASH_SOURCE[0]}")/.." && pwd)"
BIN="$ROOT/sim/target/release/nxsim"
T=$(mktemp -d /tmp/nxsim-det.XXXXXX)
trap 'rm -rf "$T"' EXIT
"$BIN" selftest determinism "$N" all > "$T/a" || { echo "selftest run failed"; exit 2; }
"$BIN" selftest determinism "$N" all > "$T/b" || exit 2
for m in 4 16; do
  : > "$T/p$m"
  pids=()
  for k in $(seq 0 $((m-1))); do
    "$BIN" selftest determinism "$N" all "$k/$m" > "$T/p$m.$k" &
    pids+=($!)
  done
  for p in "${pids[@]}"; do wait "$p" || { echo "partition failed"; exit 2; }; done
  cat "$T"/p$m.* | sort > "$T/p$m"
done
sort "$T/a" > "$T/as"
runs=$(wc -l < "$T/a")
ok=1
cmp -s "$T/a" "$T/b" || { echo "MISMATCH between two processes"; diff "$T/a" "$T/b" | head; ok=0; }
cmp -s "$T/as" "$T/p4" || { echo "MISMATCH with 4 processes"; diff "$T/as" "$T/p4" | head; ok=0; }
cmp -s "$T/as" "$T/p16" || { echo "MISMATCH with 16 processes"; diff "$T/as" "$T/p16" | head; ok=0; }
if [ $ok = 1 ]; then echo "determinism OK: $runs runs x (2 processes, 4-way split, 16-way split) identical fingerprints"; exit 0; fi
exit 1
