//! The simulated real-time bucket: a rotating set of 999 volume directories per site, an uploader
//! that makes 55-chunk volumes appear chunk by chunk, a consumer script on the other end of the
//! poller's channels, and a transport fault catalogue. Used by C18 and C19 (histories).

use crate::icd::{self, VcpCut, VcpSpec};
use crate::rng::{mix, Rng};
use crate::s3sim::{self, Backend, BodyPlan, Core, ListedObject, NetPlan, Reply, ReqKind, Request};
use nexrad_data::aws::realtime::{Chunk, ChunkIdentifier, PollStats};
use std::collections::{BTreeMap, HashMap};
use std::rc::Rc;
use std::sync::mpsc::{Receiver, Sender};

pub const CHUNKS_PER_VOLUME: usize = 55;

#[derive(Clone, Copy, Debug, PartialEq, Eq)]
pub enum UploaderMode {
    /// chunks become visible at pre-drawn virtual times
    TimeScripted,
    /// the next chunk becomes visible after the poller has made j failed attempts for it
    AttemptAdaptive,
}

#[derive(Clone, Debug, Default)]
pub struct FaultRates {
    /// per mille, applied per request inside the polling loop
    pub transient_404: u64,
    pub status_5xx: u64,
    pub send_error: u64,
    pub body_cut: u64,
    pub list_5xx: u64,
    /// HTTP 404 on a listing (e.g. a bucket/endpoint hiccup): must not be taken for an empty directory
    pub list_404: u64,
    /// latency range in ms (0 = none)
    pub latency_max_ms: u64,
    pub slow_body: bool,
    /// total number of error faults this run may inject
    pub budget: u64,
    /// at most this many injected failures per awaited chunk (keeps "0, 1 or 2 missed attempts" runs honest)
    pub per_chunk_cap: u64,
    /// one fault at this request index during start-up (None = fault-free start-up)
    pub startup_fault_at: Option<u64>,
    pub startup_fault_kind: u64,
}

#[derive(Clone, Debug)]
pub struct ConsumerScript {
    pub with_stats: bool,
    pub stop_after: Option<usize>,
    /// alternatively: send the stop when this many requests have been seen (any moment of the
    /// session, not only right after a delivery)
    pub stop_at_request: Option<u64>,
    /// the value sent on the stop channel (any message means stop)
    pub stop_value: bool,
    pub drop_chunks_after: Option<usize>,
    pub drop_stats_after: Option<usize>,
    /// apply the action one scheduling point later
    pub late_phase: bool,
}

#[derive(Clone, Debug)]
pub struct Gen {
    pub g: i64,
    pub dir: usize,
    pub prefix: String,
    pub start_stamp_ms: i64,
    pub vcp: VcpSpec,
    pub vcp_seed: u64,
    /// Last-Modified stamp per visible chunk (index 0 = sequence 1)
    pub stamps: Vec<i64>,
}

#[derive(Clone, Debug)]
pub struct Delivery {
    pub seq_event: u64,
    pub t_ms: i64,
    pub site: String,
    pub volume: usize,
    pub name: String,
    pub sequence: Option<usize>,
    pub date_time_ms: Option<i64>,
    pub is_start_variant: bool,
    pub data: Vec<u8>,
    pub after_stop: bool,
}

#[derive(Clone, Debug)]
pub struct AttemptLog {
    pub attempts: u64,
    pub failures: u64,
    pub last_failed: bool,
    pub injected: u64,
}

pub struct RtWorld {
    pub site: String,
    pub seed: u64,
    pub mode: UploaderMode,
    pub v0: usize,
    pub older: usize,
    pub vol_period_s: i64,
    pub gens: BTreeMap<i64, Gen>,
    /// newest visible chunk (generation, sequence)
    pub frontier: (i64, usize),
    pub frontier_at_start: (i64, usize),
    pub history_ended: bool,
    /// the uploader stops for good after this many further chunks (None = never stops)
    pub chunks_until_end: Option<u64>,
    // time-scripted
    pub next_upload_at_ms: i64,
    pub gap_style: u64,
    // attempt-adaptive
    pub need_fails: u64,
    pub got_fails: u64,
    pub burst: u64,
    pub max_need_fails: u64,
    // faults
    pub faults: FaultRates,
    pub in_startup: bool,
    pub startup_requests: u64,
    pub startup_faults_injected: Vec<String>,
    pub loop_faults_injected: u64,
    pub attempts: HashMap<String, AttemptLog>,
    pub longest_gap_ms: i64,
    // consumer side
    pub script: ConsumerScript,
    pub chunk_rx: Option<Receiver<(ChunkIdentifier, Chunk<'static>)>>,
    pub stats_rx: Option<Receiver<PollStats>>,
    pub stop_tx: Option<Sender<bool>>,
    pub deliveries: Vec<Delivery>,
    pub stats: Vec<(u64, PollStats)>,
    pub stop_sent_at: Option<(u64, i64)>,
    pub chunk_rx_dropped_at: Option<(u64, i64)>,
    pub stats_rx_dropped_at: Option<(u64, i64)>,
    pub pending_action: bool,
    pub payloads: HashMap<(i64, usize), Rc<Vec<u8>>>,
    pub last_event_ms: i64,
    pub cancel_after_requests: Option<u64>,
    pub requests_seen: u64,
    /// request (event seq) that fetches the VCP after the first delivery: start-up ends with its response
    pub vcp_request_seq: Option<u64>,
    /// frontier when the first delivery was recorded (upper end of the linearisation window)
    pub first_delivery_frontier: Option<(i64, usize)>,
    /// a session that issues more requests than this is a runaway (it is parked and reported)
    pub max_requests: u64,
    pub request_budget_exceeded: bool,
    /// chunks whose upload was lost for good (never listed, never served). Only chunks below the
    /// start position are ever lost, so the series the poller has to deliver is unaffected; what
    /// they create is a *hole* in the listing the start-up sees.
    pub lost: std::collections::BTreeSet<(i64, usize)>,
}

pub fn dir_of(v0: usize, g: i64) -> usize {
    (((v0 as i64 - 1 + g) % 999 + 999) % 999 + 1) as usize
}

pub fn prefix_of(start_stamp_ms: i64) -> String {
    use chrono::{TimeZone, Utc};
    Utc.timestamp_millis_opt(start_stamp_ms)
        .single()
        .map(|d| d.format("%Y%m%d-%H%M%S").to_string())
        .unwrap_or_else(|| "19700101-000000".to_string())
}

pub fn chunk_file_name(prefix: &str, seq: usize) -> String {
    let t = match seq {
        1 => "S",
        55 => "E",
        _ => "I",
    };
    format!("{}-{:03}-{}", prefix, seq, t)
}

fn floor_s(ms: i64) -> i64 {
    ms.div_euclid(1000) * 1000
}

pub fn vcp_from_seed(seed: u64) -> VcpSpec {
    let mut r = Rng::new(seed);
    let n = 1 + r.below(32) as usize;
    let cuts = (0..n)
        .map(|_| VcpCut {
            channel_configuration: r.below(4) as u8,
            waveform: r.below(7) as u8,
            super_res: r.below(16) as u8,
        })
        .collect();
    VcpSpec {
        pattern_number: [12u16, 31, 35, 112, 212, 215][r.below(6) as usize],
        declared_cuts: n as u16,
        cuts,
    }
}

impl RtWorld {
    pub fn ensure_gen(&mut self, g: i64) -> &mut Gen {
        if !self.gens.contains_key(&g) {
            // past generations are complete and derived from the run seed
            let gen0_start = self.gens.get(&0).map(|x| x.start_stamp_ms).unwrap_or(s3sim::EPOCH_MS);
            let start = floor_s(gen0_start + g * self.vol_period_s * 1000);
            let vcp_seed = mix(&[self.seed, 0x5643, g as u64]);
            let mut gen = Gen {
                g,
                dir: dir_of(self.v0, g),
                prefix: prefix_of(start),
                start_stamp_ms: start,
                vcp: vcp_from_seed(vcp_seed),
                vcp_seed,
                stamps: Vec::new(),
            };
            if g < 0 {
                let step = (self.vol_period_s * 1000 / 56).max(1000);
                gen.stamps = (0..CHUNKS_PER_VOLUME as i64).map(|i| floor_s(start + i * step)).collect();
            }
            self.gens.insert(g, gen);
        }
        self.gens.get_mut(&g).unwrap()
    }

    /// The generation that currently owns directory `dir` (the newest started one mapped to it).
    pub fn owner_of(&mut self, dir: usize) -> Option<i64> {
        if dir < 1 || dir > 999 {
            return None;
        }
        let (fg, _) = self.frontier;
        // candidates g = dir - v0 (mod 999), newest first
        // the largest generation congruent to (dir - v0) modulo 999 that is not beyond the frontier
        let base = (dir as i64 - self.v0 as i64).rem_euclid(999);
        let g = base + (fg - base).div_euclid(999) * 999;
        // g <= frontier generation. A generation exists if it was part of the initial population
        // (g >= -older) and has not been expired by the bucket's lifecycle: the directory that the
        // *next* volume will reuse (generation fg - 998) is already empty.
        if g >= -(self.older as i64) && g >= fg - 997 {
            self.ensure_gen(g);
            if !self.gens[&g].stamps.is_empty() {
                return Some(g);
            }
        }
        None
    }

    pub fn payload(&mut self, g: i64, seq: usize) -> Rc<Vec<u8>> {
        if let Some(p) = self.payloads.get(&(g, seq)) {
            return p.clone();
        }
        self.ensure_gen(g);
        let gen = self.gens[&g].clone();
        let mut r = Rng::new(mix(&[self.seed, 0x5041, g as u64, seq as u64]));
        let data = if seq == 1 {
            // a real Archive II start chunk: volume header + one bzip2 LDM record holding metadata
            // frames, among them the type-5 VCP frame the poller decodes
            let days = (gen.start_stamp_ms / 86_400_000) as u32 + 1;
            let ms = (gen.start_stamp_ms % 86_400_000) as u32;
            // every documented Archive II version (02..07)
            let version = ["2", "3", "4", "5", "6", "7"][r.below(6) as usize];
            let mut v = icd::volume_header(version, gen.dir as u16, days, ms, &self.site);
            let mut stream = Vec::new();
            let before = r.below(3);
            for k in 0..before {
                let t = [2u8, 15, 18, 13, 3][r.below(5) as usize];
                let mut body = vec![0u8; icd::FRAME_BODY];
                r.fill(&mut body);
                stream.extend_from_slice(&icd::frame(&mut r, t, k as u16, &body));
            }
            let body = gen.vcp.encode_body(&mut Rng::new(gen.vcp_seed));
            stream.extend_from_slice(&icd::frame(&mut r, 5, 100, &body));
            if r.below(2) == 1 {
                let mut body = vec![0u8; icd::FRAME_BODY];
                r.fill(&mut body);
                stream.extend_from_slice(&icd::frame(&mut r, 2, 101, &body));
            }
            v.extend_from_slice(&icd::ldm_record(&stream, false));
            v
        } else {
            // intermediate / end chunk: size prefix + "BZh9" + unique bytes (never decompressed by
            // the poller; uniqueness makes every delivery attributable to one upload)
            let n = 40 + r.below(400) as usize;
            let mut body = vec![0u8; n];
            r.fill(&mut body);
            body[0..4].copy_from_slice(b"BZh9");
            body[4..12].copy_from_slice(&(g as u64).to_be_bytes());
            body[12..16].copy_from_slice(&(seq as u32).to_be_bytes());
            // the archive format prescribes a negative size for the last record of a volume
            let size = if seq == CHUNKS_PER_VOLUME || r.below(8) == 0 { -(n as i32) } else { n as i32 };
            let mut v = size.to_be_bytes().to_vec();
            v.extend_from_slice(&body);
            v
        };
        let rc = Rc::new(data);
        self.payloads.insert((g, seq), rc.clone());
        rc
    }

    pub fn successor(&self, pos: (i64, usize)) -> (i64, usize) {
        if pos.1 < CHUNKS_PER_VOLUME {
            (pos.0, pos.1 + 1)
        } else {
            (pos.0 + 1, 1)
        }
    }

    /// Makes the successor of the frontier visible with the given stamp.
    fn reveal_next(&mut self, core: &mut Core, at_ms: i64) {
        let next = self.successor(self.frontier);
        let prev_stamp = self
            .gens
            .get(&self.frontier.0)
            .and_then(|g| g.stamps.last().copied())
            .unwrap_or(at_ms);
        let stamp = floor_s(at_ms).max(prev_stamp);
        if next.1 == 1 {
            // a new volume starts: its directory is reused, the name prefix is its start time
            let vcp_seed = mix(&[self.seed, 0x5643, next.0 as u64]);
            let gen = Gen {
                g: next.0,
                dir: dir_of(self.v0, next.0),
                prefix: prefix_of(stamp),
                start_stamp_ms: stamp,
                vcp: vcp_from_seed(vcp_seed),
                vcp_seed,
                stamps: vec![stamp],
            };
            self.gens.insert(next.0, gen);
            core.ctx.count("volume_started");
            if dir_of(self.v0, next.0) == 1 && dir_of(self.v0, self.frontier.0) == 999 {
                core.ctx.count("upload_wrap_999_to_1");
            }
        } else {
            self.gens.get_mut(&next.0).unwrap().stamps.push(stamp);
        }
        let gap = stamp - prev_stamp;
        if gap > self.longest_gap_ms {
            self.longest_gap_ms = gap;
        }
        self.frontier = next;
        self.last_event_ms = self.last_event_ms.max(at_ms);
        if let Some(n) = &mut self.chunks_until_end {
            if *n > 0 {
                *n -= 1;
            }
            if *n == 0 {
                self.history_ended = true;
            }
        }
        let e = (at_ms - s3sim::EPOCH_MS).max(0) as u64;
        core.ctx.ev("upload", &[next.0 as u64, next.1 as u64, e], || {
            format!("chunk ({}, {}) visible in directory {}", next.0, next.1, dir_of(self.v0, next.0))
        });
    }

    fn draw_gap_ms(&mut self, core: &mut Core) -> i64 {
        let base = match self.gap_style {
            0 => [4_000i64, 7_000, 11_000][core.tape.draw(3) as usize],
            1 => 4_000,
            2 => 7_000,
            _ => 11_000,
        };
        match core.tape.weighted(&[14, 2, 1, 1]) {
            0 => base + core.tape.draw(1500) as i64 - 500,
            1 => core.tape.draw(1200) as i64,
            2 => base + 3_000 + core.tape.draw(6_000) as i64,
            _ => 20_000 + core.tape.draw(40_000) as i64,
        }
    }

    /// Time-scripted uploader: apply every upload whose time has come.
    fn advance(&mut self, core: &mut Core) {
        if self.mode != UploaderMode::TimeScripted {
            return;
        }
        let now = core.elapsed_ms();
        let mut guard = 0;
        while !self.history_ended && self.next_upload_at_ms <= now && guard < 5000 {
            let at = s3sim::EPOCH_MS + self.next_upload_at_ms;
            self.reveal_next(core, at);
            let gap = self.draw_gap_ms(core);
            self.next_upload_at_ms += gap.max(0);
            guard += 1;
        }
    }

    /// Consumer side, evaluated at every scheduling point.
    fn script_point(&mut self, core: &mut Core) {
        let seq = core.ctx.seq();
        let now = core.elapsed_ms();
        let after_stop = self.stop_sent_at.is_some();
        let mut got: Vec<(ChunkIdentifier, Chunk<'static>)> = Vec::new();
        if let Some(rx) = &self.chunk_rx {
            while let Ok(x) = rx.try_recv() {
                got.push(x);
            }
        }
        if !got.is_empty() && self.deliveries.is_empty() {
            self.advance(core);
            self.first_delivery_frontier = Some(self.frontier);
        }
        {
            for (id, chunk) in got {
                let d = Delivery {
                    seq_event: seq,
                    t_ms: now,
                    site: id.site().to_string(),
                    volume: id.volume().as_number(),
                    name: id.name().to_string(),
                    sequence: id.sequence(),
                    date_time_ms: id.date_time().map(|d| d.timestamp_millis()),
                    is_start_variant: matches!(chunk, Chunk::Start(_)),
                    data: chunk.data().to_vec(),
                    after_stop,
                };
                let (v, s) = (d.volume as u64, d.sequence.unwrap_or(0) as u64);
                core.ctx.ev("deliver", &[v, s, now as u64], || format!("{}/{}/{}", d.site, d.volume, d.name));
                self.deliveries.push(d);
                self.last_event_ms = self.last_event_ms.max(s3sim::EPOCH_MS + now);
                // attempt accounting is per awaited chunk
                self.attempts.clear();
            }
        }
        if let Some(rx) = &self.stats_rx {
            while let Ok(s) = rx.try_recv() {
                self.stats.push((seq, s));
            }
        }
        let n = self.deliveries.len();
        let mut due_stop = self.stop_sent_at.is_none()
            && (self.script.stop_after.map(|k| n >= k).unwrap_or(false) || self.script.stop_at_request.map(|r| self.requests_seen >= r).unwrap_or(false));
        let mut due_drop = self.chunk_rx.is_some() && self.script.drop_chunks_after.map(|k| n >= k).unwrap_or(false);
        let mut due_sdrop = self.stats_rx.is_some() && self.script.drop_stats_after.map(|k| n >= k).unwrap_or(false);
        if (due_stop || due_drop || due_sdrop) && self.script.late_phase && !self.pending_action {
            // act at the next scheduling point instead
            self.pending_action = true;
            due_stop = false;
            due_drop = false;
            due_sdrop = false;
        }
        if due_stop {
            if let Some(tx) = &self.stop_tx {
                let _ = tx.send(self.script.stop_value);
            }
            self.stop_sent_at = Some((seq, now));
            self.last_event_ms = self.last_event_ms.max(s3sim::EPOCH_MS + now);
            core.ctx.count("stop_sent");
            core.ctx.ev("stop", &[n as u64, now as u64], || format!("stop signal after {} deliveries", n));
        }
        if due_drop {
            self.chunk_rx = None;
            self.chunk_rx_dropped_at = Some((seq, now));
            self.last_event_ms = self.last_event_ms.max(s3sim::EPOCH_MS + now);
            core.ctx.count("chunk_receiver_dropped");
            core.ctx.ev("drop-consumer", &[n as u64, now as u64], || format!("chunk receiver dropped after {} deliveries", n));
        }
        if due_sdrop {
            self.stats_rx = None;
            self.stats_rx_dropped_at = Some((seq, now));
            self.last_event_ms = self.last_event_ms.max(s3sim::EPOCH_MS + now);
            core.ctx.count("stats_receiver_dropped");
            core.ctx.ev("drop-stats", &[n as u64, now as u64], || format!("stats receiver dropped after {} deliveries", n));
        }
        // the first delivery ends the start-up phase (the VCP download that follows still belongs
        // to it, see `serve`)
    }

    pub fn final_drain(&mut self, core: &mut Core) {
        self.script.stop_after = None;
        self.script.stop_at_request = None;
        self.script.drop_chunks_after = None;
        self.script.drop_stats_after = None;
        self.script_point(core);
    }

    fn note_attempt(&mut self, key: &str, failed: bool, injected: bool) {
        let e = self.attempts.entry(key.to_string()).or_insert(AttemptLog {
            attempts: 0,
            failures: 0,
            last_failed: false,
            injected: 0,
        });
        e.attempts += 1;
        if failed {
            e.failures += 1;
        }
        if injected {
            e.injected += 1;
        }
        e.last_failed = failed;
    }

    /// Decides whether to inject an error fault into this request. Returns the fault kind.
    fn draw_fault(&mut self, core: &mut Core, is_list: bool, key: &str) -> Option<&'static str> {
        if self.in_startup {
            let idx = self.startup_requests - 1;
            if self.faults.startup_fault_at == Some(idx) {
                let kind = match (self.faults.startup_fault_kind % 4, is_list) {
                    (0, _) => "send_error",
                    (1, true) => "list_5xx",
                    (1, false) => "status_5xx",
                    (2, true) => "list_404",
                    (2, false) => "transient_404",
                    (_, true) => "send_error",
                    (_, false) => "body_cut",
                };
                return Some(kind);
            }
            return None;
        }
        if self.faults.budget == 0 {
            return None;
        }
        let already = self.attempts.get(key).map(|a| a.injected).unwrap_or(0);
        if already >= self.faults.per_chunk_cap {
            return None;
        }
        let f = &self.faults;
        let table: [(&'static str, u64); 5] = if is_list {
            [("list_5xx", f.list_5xx), ("send_error", f.send_error), ("list_404", f.list_404), ("", 0), ("", 0)]
        } else {
            [
                ("transient_404", f.transient_404),
                ("status_5xx", f.status_5xx),
                ("send_error", f.send_error),
                ("body_cut", f.body_cut),
                ("", 0),
            ]
        };
        let total: u64 = table.iter().map(|x| x.1).sum::<u64>().min(1000);
        if total == 0 {
            return None;
        }
        // 0 is "no fault": the fault bands sit at the top of the range
        let roll = core.tape.draw(1000);
        if roll < 1000 - total {
            return None;
        }
        let mut r = roll - (1000 - total);
        for (name, rate) in table.iter() {
            if r < *rate {
                self.faults.budget -= 1;
                return Some(name);
            }
            r -= rate;
        }
        None
    }
}

impl Backend for RtWorld {
    fn on_request(&mut self, core: &mut Core, _req: &Request) -> NetPlan {
        self.requests_seen += 1;
        if self.in_startup {
            self.startup_requests += 1;
        }
        self.script_point(core);
        if self.in_startup && !self.deliveries.is_empty() {
            match self.vcp_request_seq {
                None => self.vcp_request_seq = Some(_req.seq),
                Some(s) if s != _req.seq => {
                    // the request after the VCP download: the polling loop has begun
                    self.in_startup = false;
                    self.startup_requests = self.startup_requests.saturating_sub(1);
                    core.ctx.ev("startup-done", &[_req.seq], String::new);
                }
                _ => {}
            }
        }
        if self.requests_seen > self.max_requests && !self.request_budget_exceeded {
            self.request_budget_exceeded = true;
            core.cancel_requested = true;
            core.ctx.ev("runaway", &[self.requests_seen], || "request budget exceeded: the session is parked".into());
        }
        if let Some(n) = self.cancel_after_requests {
            if self.requests_seen > n {
                core.cancel_requested = true;
            }
        }
        let mut plan = NetPlan::default();
        if self.faults.latency_max_ms > 0 {
            let m = self.faults.latency_max_ms;
            let (up, down) = match core.tape.weighted(&[12, 3, 1]) {
                0 => (1 + core.tape.draw(40), 1 + core.tape.draw(60)),
                1 => (core.tape.draw(m / 4 + 1), core.tape.draw(m / 4 + 1)),
                _ => (core.tape.draw(m + 1), core.tape.draw(m + 1)),
            };
            plan.up_ms = up;
            plan.down_ms = down;
            core.ctx.count("fault.latency");
            if self.faults.slow_body && core.tape.draw(4) == 3 {
                plan.body = BodyPlan { cut_at: None, frame: 64 + core.tape.draw(4000) as usize, frame_delay_ms: 1 + core.tape.draw(30), empty_frame_every: [0usize, 0, 1, 3][core.tape.draw(4) as usize] };
                core.ctx.count("fault.slow_body");
            }
        }
        plan
    }

    fn serve(&mut self, core: &mut Core, req: &Request) -> Reply {
        self.advance(core);
        let now_ms = core.now_ms();
        if req.host != s3sim::REALTIME_HOST {
            return s3sim::status_reply(403, None);
        }
        // chunk keys have nothing below "SITE/VOLUME/": a '/' delimiter would change nothing
        let kind = req.kind.without_delimiter();
        match &kind {
            ReqKind::List { prefix, max_keys } => {
                let max = max_keys.unwrap_or(1000);
                let parts: Vec<&str> = prefix.split('/').collect();
                let dir = if parts.len() == 3 && parts[0] == self.site && parts[2].is_empty() {
                    parts[1].parse::<usize>().ok().filter(|d| parts[1] == d.to_string())
                } else {
                    None
                };
                // is this an attempt for the awaited first chunk of the next volume?
                let next = self.successor(self.frontier);
                let awaited_dir = if self.frontier.1 == CHUNKS_PER_VOLUME { Some(dir_of(self.v0, next.0)) } else { None };
                let is_boundary_attempt = !self.in_startup && dir.is_some() && dir == awaited_dir && max == 100;
                let akey = format!("LIST {}", prefix);
                if let Some(kind) = self.draw_fault(core, true, &akey) {
                    core.ctx.count(match kind {
                        "list_5xx" => "fault.list_5xx",
                        "list_404" => "fault.list_404",
                        _ => "fault.send_error",
                    });
                    core.ctx.ev("fault", &[req.seq], || format!("{} on listing {}", kind, prefix));
                    if self.in_startup {
                        self.startup_faults_injected.push(format!("{} on LIST {}", kind, prefix));
                    } else {
                        self.loop_faults_injected += 1;
                    }
                    self.last_event_ms = self.last_event_ms.max(now_ms);
                    self.note_attempt(&akey, true, true);
                    return match kind {
                        "list_5xx" => s3sim::status_reply([500u16, 503][(req.seq % 2) as usize], None),
                        "list_404" => s3sim::status_reply(404, None),
                        _ => Reply::SendError,
                    };
                }
                if is_boundary_attempt && self.mode == UploaderMode::AttemptAdaptive && !self.history_ended {
                    if self.got_fails >= self.need_fails {
                        // the new volume appears now (possibly several chunks at once)
                        let n = 1 + self.burst;
                        for _ in 0..n {
                            if !self.history_ended {
                                self.reveal_next(core, now_ms);
                            }
                        }
                        self.need_fails = core.tape.draw(self.max_need_fails + 1);
                        self.got_fails = 0;
                        self.burst = if core.tape.draw(8) == 7 { core.tape.draw(4) } else { 0 };
                    } else {
                        self.got_fails += 1;
                        core.ctx.count("visibility_delay_attempts");
                    }
                }
                let mut objects = Vec::new();
                let mut truncated = false;
                // S3 matches plain string prefixes over keys in byte order
                'dirs: for d in s3sim::matching_dirs(&self.site, prefix) {
                    if let Some(g) = self.owner_of(d) {
                        let gen = &self.gens[&g];
                        for i in 0..gen.stamps.len() {
                            if self.lost.contains(&(g, i + 1)) {
                                continue;
                            }
                            let key = format!("{}/{}/{}", self.site, d, chunk_file_name(&gen.prefix, i + 1));
                            if !key.starts_with(prefix.as_str()) {
                                continue;
                            }
                            if objects.len() == max {
                                truncated = true;
                                break 'dirs;
                            }
                            objects.push(ListedObject {
                                key,
                                last_modified: s3sim::rfc3339_ms(gen.stamps[i], true),
                                size: (100 + i * 7).to_string(),
                            });
                        }
                    }
                }
                if !self.in_startup && max == 100 {
                    self.note_attempt(&akey, objects.is_empty(), false);
                }
                Reply::Text {
                    status: 200,
                    body: s3sim::list_xml("unidata-nexrad-level2-chunks", prefix, max, &objects, truncated, false),
                }
            }
            ReqKind::Get { key } => {
                let parts: Vec<&str> = key.split('/').collect();
                let mut found: Option<(i64, usize)> = None;
                let mut awaited = false;
                if parts.len() == 3 && parts[0] == self.site {
                    if let Some(d) = parts[1].parse::<usize>().ok().filter(|d| parts[1] == d.to_string()) {
                        // the awaited next chunk inside the current volume?
                        let next = self.successor(self.frontier);
                        if next.1 != 1 && dir_of(self.v0, next.0) == d {
                            let gen = &self.gens[&next.0];
                            if parts[2] == chunk_file_name(&gen.prefix, next.1) {
                                awaited = true;
                            }
                        }
                        if awaited && self.mode == UploaderMode::AttemptAdaptive && !self.history_ended && !self.in_startup {
                            if self.got_fails >= self.need_fails {
                                let n = 1 + self.burst;
                                for _ in 0..n {
                                    if !self.history_ended && self.frontier.1 < CHUNKS_PER_VOLUME {
                                        self.reveal_next(core, now_ms);
                                    }
                                }
                                self.need_fails = core.tape.draw(self.max_need_fails + 1);
                                self.got_fails = 0;
                                self.burst = if core.tape.draw(8) == 7 { core.tape.draw(4) } else { 0 };
                            } else {
                                self.got_fails += 1;
                                core.ctx.count("visibility_delay_attempts");
                            }
                        }
                        if let Some(g) = self.owner_of(d) {
                            let gen = &self.gens[&g];
                            for i in 0..gen.stamps.len() {
                                if parts[2] == chunk_file_name(&gen.prefix, i + 1) && !self.lost.contains(&(g, i + 1)) {
                                    found = Some((g, i + 1));
                                    break;
                                }
                            }
                        }
                    }
                }
                match found {
                    None => {
                        self.note_attempt(key, true, false);
                        s3sim::status_reply(404, Some(key))
                    }
                    Some((g, seq)) => {
                        if let Some(kind) = self.draw_fault(core, false, key) {
                            core.ctx.count(match kind {
                                "transient_404" => "fault.transient_404",
                                "status_5xx" => "fault.status_5xx",
                                "body_cut" => "fault.body_cut",
                                _ => "fault.send_error",
                            });
                            core.ctx.ev("fault", &[req.seq], || format!("{} on GET {}", kind, key));
                            if self.in_startup {
                                self.startup_faults_injected.push(format!("{} on GET {}", kind, key));
                            } else {
                                self.loop_faults_injected += 1;
                            }
                            self.last_event_ms = self.last_event_ms.max(now_ms);
                            self.note_attempt(key, true, true);
                            return match kind {
                                "transient_404" => s3sim::status_reply(404, Some(key)),
                                "status_5xx" => s3sim::status_reply([500u16, 503, 403][(req.seq % 3) as usize], Some(key)),
                                "body_cut" => {
                                    let stamp = self.gens[&g].stamps[seq - 1];
                                    let data = self.payload(g, seq);
                                    let cut = core.tape.draw(data.len() as u64) as usize;
                                    Reply::Object { data: (*data).clone(), last_modified: Some(s3sim::rfc2822_ms(stamp)), cut_at: Some(cut) }
                                }
                                _ => Reply::SendError,
                            };
                        }
                        self.note_attempt(key, false, false);
                        let stamp = self.gens[&g].stamps[seq - 1];
                        let data = self.payload(g, seq);
                        Reply::Object { data: (*data).clone(), last_modified: Some(s3sim::rfc2822_ms(stamp)), cut_at: None }
                    }
                }
            }
            ReqKind::Bad(_) | ReqKind::ListDelimited { .. } => s3sim::status_reply(403, None),
        }
    }

    fn on_response(&mut self, core: &mut Core, req: &Request) {
        let _ = req;
        self.script_point(core);
    }
}
