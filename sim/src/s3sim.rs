//! `s3sim`: an in-process S3 endpoint behind the `reqwest::get` seam, a simulated wall clock behind
//! the `Utc::now()` seam, and a paused tokio current-thread runtime whose timers are the only
//! source of time. Everything that happens is decided by the run's tape.
//!
//! Real code: everything in nexrad above `reqwest::get` (URL construction, status handling,
//! header parsing, body collection through reqwest's own `Response`, XML parsing, chunk sniffing,
//! polling state machine, timers through tokio's clock).
//! Stub: the HTTP client below `reqwest::get` (connection pool, TLS, TCP, DNS), S3 itself, the
//! system clock.

use crate::ctx::Ctx;
use crate::tape::Tape;
use bytes::Bytes;
use chrono::{DateTime, TimeZone, Utc};
use nexrad_data::verif::{install_clock, install_transport, GetFuture, Transport};
use std::cell::RefCell;
use std::collections::VecDeque;
use std::future::Future;
use std::pin::Pin;
use std::rc::Rc;
use std::task::{Context, Poll};
use std::time::Duration;

/// 2024-08-04T10:10:07Z, the instant at which every simulation starts.
pub const EPOCH_MS: i64 = 1_722_766_207_000;

pub const REALTIME_HOST: &str = "unidata-nexrad-level2-chunks.s3.amazonaws.com";
pub const ARCHIVE_HOST: &str = "noaa-nexrad-level2.s3.amazonaws.com";

#[derive(Clone, Debug, PartialEq, Eq)]
pub enum ReqKind {
    List { prefix: String, max_keys: Option<usize> },
    /// a listing that also carries a `delimiter` parameter (keys below a delimiter are rolled up
    /// into CommonPrefixes instead of being listed)
    ListDelimited { prefix: String, max_keys: Option<usize>, delimiter: String },
    Get { key: String },
    /// Not something S3 would understand (unparsable URL, missing parameters).
    Bad(String),
}

impl ReqKind {
    /// For buckets that hold no keys below the listed prefix's own level a delimiter changes
    /// nothing: the listing is served as a plain one.
    pub fn without_delimiter(&self) -> ReqKind {
        match self {
            ReqKind::ListDelimited { prefix, max_keys, .. } => ReqKind::List { prefix: prefix.clone(), max_keys: *max_keys },
            k => k.clone(),
        }
    }
}

#[derive(Clone, Debug)]
pub struct Request {
    pub seq: u64,
    pub t_ms: i64,
    pub host: String,
    pub kind: ReqKind,
    pub url: String,
}

/// What the server side decided to answer.
pub enum Reply {
    /// 200 (or another status) with a text body, used for listings and S3 error documents.
    Text { status: u16, body: String },
    /// 200 with the object.
    Object {
        data: Vec<u8>,
        last_modified: Option<String>,
        /// the connection is cut after this many body bytes (decided by the server side)
        cut_at: Option<usize>,
    },
    /// A response with an arbitrary (possibly non-UTF-8) body.
    Raw { status: u16, body: Vec<u8> },
    /// The request could not be sent / the connection failed before a response.
    SendError,
}

/// How the body travels.
#[derive(Default, Clone, Debug)]
pub struct BodyPlan {
    /// Connection cut after this many body bytes (the rest never arrives, the stream errors).
    pub cut_at: Option<usize>,
    /// Body delivered in frames of at most this size (0 = one frame).
    pub frame: usize,
    /// Virtual delay before each frame after the first.
    pub frame_delay_ms: u64,
    /// insert a zero-length data frame after every n-th frame (0 = never)
    pub empty_frame_every: usize,
}

/// Latency and transfer plan for one request.
#[derive(Default, Clone, Debug)]
pub struct NetPlan {
    pub up_ms: u64,
    pub down_ms: u64,
    pub body: BodyPlan,
}

pub struct Core {
    pub tape: Tape,
    pub ctx: Ctx,
    pub log: Vec<Request>,
    start: tokio::time::Instant,
    /// Client clock offset: skew_before until jump_at_ms (simulated ms since start), then skew_after.
    pub skew_before_ms: i64,
    pub skew_after_ms: i64,
    pub skew_jump_at_ms: i64,
    pub cancel: Option<Rc<tokio::sync::Notify>>,
    pub cancel_requested: bool,
    /// A real clock moves between two consecutive reads: every read of the client clock advances
    /// it by this many extra milliseconds (0 = reads at one simulated instant return the same value).
    pub tick_ms: i64,
    pub tick_total: std::cell::Cell<i64>,
    pub clock_reads: std::cell::Cell<u64>,
}

impl Core {
    /// Simulated milliseconds since the start of the run.
    pub fn elapsed_ms(&self) -> i64 {
        self.start.elapsed().as_millis() as i64
    }
    /// The server's (true) wall clock.
    pub fn now_ms(&self) -> i64 {
        EPOCH_MS + self.elapsed_ms()
    }
    /// The client's wall clock (skewed).
    pub fn client_now_ms(&self) -> i64 {
        let e = self.elapsed_ms();
        let skew = if e < self.skew_jump_at_ms {
            self.skew_before_ms
        } else {
            self.skew_after_ms
        };
        self.clock_reads.set(self.clock_reads.get() + 1);
        if self.tick_ms > 0 {
            self.tick_total.set(self.tick_total.get() + self.tick_ms);
        }
        EPOCH_MS + e + skew + self.tick_total.get()
    }
}

pub trait Backend: 'static {
    /// Called when the request leaves the client (scheduling point 1). Decides latency and transfer.
    fn on_request(&mut self, core: &mut Core, req: &Request) -> NetPlan;
    /// Called when the request reaches the server: the bucket state is sampled *now*.
    fn serve(&mut self, core: &mut Core, req: &Request) -> Reply;
    /// Called when the response is handed to the client (scheduling point 2).
    fn on_response(&mut self, _core: &mut Core, _req: &Request) {}
}

pub struct World<B: Backend> {
    pub core: Core,
    pub backend: B,
}

pub type Shared<B> = Rc<RefCell<World<B>>>;

struct SimTransport<B: Backend>(Shared<B>);

impl<B: Backend> Transport for SimTransport<B> {
    fn get(&self, url: String) -> GetFuture {
        let world = self.0.clone();
        Box::pin(async move {
            let (req, plan) = {
                let mut w = world.borrow_mut();
                let w = &mut *w;
                let seq = w.core.ctx.next_seq();
                let t_ms = w.core.now_ms();
                let req = parse_request(seq, t_ms, &url);
                w.core.ctx.evaluations += 1;
                let e = w.core.elapsed_ms() as u64;
                w.core.ctx.ev("req", &[seq, e], || url.clone());
                w.core.log.push(req.clone());
                let plan = w.backend.on_request(&mut w.core, &req);
                (req, plan)
            };
            park_if_cancelled(&world).await;
            if plan.up_ms > 0 {
                tokio::time::sleep(Duration::from_millis(plan.up_ms)).await;
            }
            let reply = {
                let mut w = world.borrow_mut();
                let w = &mut *w;
                w.backend.serve(&mut w.core, &req)
            };
            if plan.down_ms > 0 {
                tokio::time::sleep(Duration::from_millis(plan.down_ms)).await;
            }
            {
                let mut w = world.borrow_mut();
                let w = &mut *w;
                let e = w.core.elapsed_ms() as u64;
                let code = match &reply {
                    Reply::Text { status, .. } => *status as u64,
                    Reply::Raw { status, .. } => *status as u64,
                    Reply::Object { .. } => 200,
                    Reply::SendError => 0,
                };
                w.core.ctx.next_seq();
                w.core.ctx.ev("resp", &[req.seq, e, code], String::new);
                w.backend.on_response(&mut w.core, &req);
            }
            park_if_cancelled(&world).await;
            build_response(reply, &plan.body)
        })
    }
}

async fn park_if_cancelled<B: Backend>(world: &Shared<B>) {
    let parked = {
        let w = world.borrow();
        if w.core.cancel_requested {
            w.core.cancel.clone()
        } else {
            None
        }
    };
    if let Some(n) = parked {
        n.notify_one();
        std::future::pending::<()>().await;
    }
}

/// Installs the world behind both seams for the current thread.
pub fn install<B: Backend>(world: &Shared<B>) {
    install_transport(Some(Rc::new(SimTransport(world.clone()))));
    let w2 = world.clone();
    install_clock(Some(Rc::new(move || {
        let ms = w2.borrow().core.client_now_ms();
        Utc.timestamp_millis_opt(ms).single().unwrap_or(DateTime::<Utc>::MIN_UTC)
    })));
}

pub fn uninstall() {
    install_transport(None);
    install_clock(None);
}

/// Runs `f` on a fresh paused current-thread runtime with a world built by `make`. `tape` and `ctx`
/// are moved into the world for the duration and moved back afterwards, also when unwinding.
pub fn with_world<B: Backend, T>(
    tape: &mut Tape,
    ctx: &mut Ctx,
    make: impl FnOnce(&mut Core) -> B,
    f: impl FnOnce(Shared<B>, &tokio::runtime::Runtime) -> T,
) -> T {
    struct Restore<'a, B: Backend> {
        world: Shared<B>,
        tape: &'a mut Tape,
        ctx: &'a mut Ctx,
    }
    impl<B: Backend> Drop for Restore<'_, B> {
        fn drop(&mut self) {
            uninstall();
            if let Ok(mut w) = self.world.try_borrow_mut() {
                std::mem::swap(self.tape, &mut w.core.tape);
                std::mem::swap(self.ctx, &mut w.core.ctx);
            }
        }
    }
    let rt = tokio::runtime::Builder::new_current_thread()
        .enable_time()
        .start_paused(true)
        .build()
        .expect("tokio runtime");
    let start = {
        let _g = rt.enter();
        tokio::time::Instant::now()
    };
    let mut core = Core {
        tape: std::mem::replace(tape, Tape::replay(Vec::new())),
        ctx: std::mem::replace(ctx, Ctx::new(false, false)),
        log: Vec::new(),
        start,
        skew_before_ms: 0,
        skew_after_ms: 0,
        skew_jump_at_ms: i64::MAX,
        cancel: None,
        cancel_requested: false,
        tick_ms: 0,
        tick_total: std::cell::Cell::new(0),
        clock_reads: std::cell::Cell::new(0),
    };
    let backend = make(&mut core);
    let world: Shared<B> = Rc::new(RefCell::new(World { core, backend }));
    // dropped before `rt` (reverse declaration order), also while unwinding from a panic in `f`
    let _guard = Restore {
        world: world.clone(),
        tape,
        ctx,
    };
    install(&world);
    let out = f(world.clone(), &rt);
    {
        let _g = rt.enter();
        let mut w = world.borrow_mut();
        let e = w.core.elapsed_ms().max(0) as u64;
        w.core.ctx.sim_ms = e;
    }
    out
}

// ---------------------------------------------------------------------------------------------
// request parsing (what S3 would see)

fn percent_decode(s: &str) -> String {
    let b = s.as_bytes();
    let mut out = Vec::with_capacity(b.len());
    let mut i = 0;
    while i < b.len() {
        if b[i] == b'%' && i + 2 < b.len() {
            let h = (b[i + 1] as char).to_digit(16);
            let l = (b[i + 2] as char).to_digit(16);
            if let (Some(h), Some(l)) = (h, l) {
                out.push((h * 16 + l) as u8);
                i += 3;
                continue;
            }
        }
        out.push(b[i]);
        i += 1;
    }
    String::from_utf8_lossy(&out).to_string()
}

pub fn parse_request(seq: u64, t_ms: i64, url: &str) -> Request {
    let parsed = match reqwest::Url::parse(url) {
        Ok(u) => u,
        Err(e) => {
            return Request {
                seq,
                t_ms,
                host: String::new(),
                kind: ReqKind::Bad(format!("unparsable url: {}", e)),
                url: url.to_string(),
            }
        }
    };
    let host = parsed.host_str().unwrap_or("").to_string();
    let path = parsed.path();
    let kind = if path.is_empty() || path == "/" {
        let mut prefix = None;
        let mut max_keys = None;
        let mut list_type = None;
        let mut delimiter = None;
        let mut bad = None;
        for (k, v) in parsed.query_pairs() {
            match k.as_ref() {
                "prefix" => prefix = Some(v.to_string()),
                "max-keys" => match v.parse::<usize>() {
                    Ok(n) => max_keys = Some(n),
                    Err(_) => bad = Some(format!("bad max-keys {}", v)),
                },
                "list-type" => list_type = Some(v.to_string()),
                "delimiter" => delimiter = Some(v.to_string()),
                _ => {}
            }
        }
        if let Some(b) = bad {
            ReqKind::Bad(b)
        } else if list_type.as_deref() != Some("2") {
            ReqKind::Bad("list request without list-type=2".to_string())
        } else if let Some(d) = delimiter.filter(|d| !d.is_empty()) {
            ReqKind::ListDelimited { prefix: prefix.unwrap_or_default(), max_keys, delimiter: d }
        } else {
            ReqKind::List {
                prefix: prefix.unwrap_or_default(),
                max_keys,
            }
        }
    } else {
        ReqKind::Get {
            key: percent_decode(path.trim_start_matches('/')),
        }
    };
    Request {
        seq,
        t_ms,
        host,
        kind,
        url: url.to_string(),
    }
}

// ---------------------------------------------------------------------------------------------
// response building

struct PlannedBody {
    frames: VecDeque<Result<Bytes, ()>>,
    delay_ms: u64,
    first: bool,
    sleep: Option<Pin<Box<tokio::time::Sleep>>>,
}

impl http_body::Body for PlannedBody {
    type Data = Bytes;
    type Error = Box<dyn std::error::Error + Send + Sync>;

    fn poll_frame(
        mut self: Pin<&mut Self>,
        cx: &mut Context<'_>,
    ) -> Poll<Option<Result<http_body::Frame<Bytes>, Self::Error>>> {
        let this = &mut *self;
        if this.frames.is_empty() {
            return Poll::Ready(None);
        }
        if !this.first && this.delay_ms > 0 {
            if this.sleep.is_none() {
                this.sleep = Some(Box::pin(tokio::time::sleep(Duration::from_millis(
                    this.delay_ms,
                ))));
            }
            if let Some(s) = this.sleep.as_mut() {
                match s.as_mut().poll(cx) {
                    Poll::Pending => return Poll::Pending,
                    Poll::Ready(()) => this.sleep = None,
                }
            }
        }
        this.first = false;
        match this.frames.pop_front() {
            Some(Ok(b)) => Poll::Ready(Some(Ok(http_body::Frame::data(b)))),
            Some(Err(())) => {
                this.frames.clear();
                Poll::Ready(Some(Err("simulated connection reset while reading the body".into())))
            }
            None => Poll::Ready(None),
        }
    }
}

fn make_body(data: Vec<u8>, plan: &BodyPlan) -> reqwest::Body {
    if plan.cut_at.is_none() && plan.frame == 0 && plan.empty_frame_every == 0 {
        return reqwest::Body::from(data);
    }
    let total = data.len();
    let end = plan.cut_at.map(|c| c.min(total)).unwrap_or(total);
    let bytes = Bytes::from(data);
    let mut frames = VecDeque::new();
    let step = if plan.frame == 0 { end.max(1) } else { plan.frame };
    let mut i = 0;
    let mut k = 0usize;
    if plan.empty_frame_every > 0 && end > 0 {
        // a zero-length frame right at the start is legal too
        frames.push_back(Ok(Bytes::new()));
    }
    while i < end {
        let j = (i + step).min(end);
        frames.push_back(Ok(bytes.slice(i..j)));
        i = j;
        k += 1;
        if plan.empty_frame_every > 0 && k % plan.empty_frame_every == 0 && i < end {
            frames.push_back(Ok(Bytes::new()));
        }
    }
    if plan.cut_at.is_some() {
        frames.push_back(Err(()));
    }
    reqwest::Body::wrap(PlannedBody {
        frames,
        delay_ms: plan.frame_delay_ms,
        first: true,
        sleep: None,
    })
}

pub fn build_response(reply: Reply, plan: &BodyPlan) -> Result<reqwest::Response, reqwest::Error> {
    match reply {
        Reply::SendError => Err(send_error()),
        Reply::Text { status, body } => {
            let resp = http::Response::builder()
                .status(status)
                .header("Content-Type", "application/xml")
                .header("Server", "AmazonS3")
                .body(make_body(body.into_bytes(), plan))
                .expect("response");
            Ok(reqwest::Response::from(resp))
        }
        Reply::Raw { status, body } => {
            let resp = http::Response::builder()
                .status(status)
                .header("Content-Type", "application/xml")
                .header("Server", "AmazonS3")
                .body(make_body(body, plan))
                .expect("response");
            Ok(reqwest::Response::from(resp))
        }
        Reply::Object {
            data,
            last_modified,
            cut_at,
        } => {
            let mut plan = plan.clone();
            if cut_at.is_some() {
                plan.cut_at = cut_at;
            }
            let plan = &plan;
            let mut b = http::Response::builder()
                .status(200)
                .header("Content-Type", "binary/octet-stream")
                .header("Content-Length", data.len().to_string())
                .header("Server", "AmazonS3");
            if let Some(lm) = last_modified {
                b = b.header("Last-Modified", lm);
            }
            let resp = b.body(make_body(data, plan)).expect("response");
            Ok(reqwest::Response::from(resp))
        }
    }
}

/// A genuine `reqwest::Error` obtained without any I/O.
pub fn send_error() -> reqwest::Error {
    let resp = http::Response::builder()
        .status(503)
        .body(reqwest::Body::from(Vec::<u8>::new()))
        .expect("response");
    match reqwest::Response::from(resp).error_for_status() {
        Err(e) => e,
        Ok(_) => unreachable!("503 is an error status"),
    }
}

pub fn xml_escape(s: &str) -> String {
    let mut out = String::with_capacity(s.len() + 8);
    for c in s.chars() {
        match c {
            '&' => out.push_str("&amp;"),
            '<' => out.push_str("&lt;"),
            '>' => out.push_str("&gt;"),
            '"' => out.push_str("&quot;"),
            '\'' => out.push_str("&apos;"),
            _ => out.push(c),
        }
    }
    out
}

pub struct ListedObject {
    pub key: String,
    /// Already formatted (RFC 3339 with or without fraction), or garbage when a fault says so.
    pub last_modified: String,
    /// Already formatted.
    pub size: String,
}

pub fn list_xml(
    bucket: &str,
    prefix: &str,
    max_keys: usize,
    objects: &[ListedObject],
    truncated: bool,
    pretty: bool,
) -> String {
    let nl = if pretty { "\n  " } else { "" };
    let mut s = String::with_capacity(256 + objects.len() * 256);
    s.push_str("<?xml version=\"1.0\" encoding=\"UTF-8\"?>\n");
    s.push_str("<ListBucketResult xmlns=\"http://s3.amazonaws.com/doc/2006-03-01/\">");
    s.push_str(&format!("{nl}<Name>{}</Name>", xml_escape(bucket)));
    s.push_str(&format!("{nl}<Prefix>{}</Prefix>", xml_escape(prefix)));
    s.push_str(&format!("{nl}<KeyCount>{}</KeyCount>", objects.len()));
    s.push_str(&format!("{nl}<MaxKeys>{}</MaxKeys>", max_keys));
    s.push_str(&format!("{nl}<IsTruncated>{}</IsTruncated>", truncated));
    for o in objects {
        s.push_str(&format!(
            "{nl}<Contents><Key>{}</Key><LastModified>{}</LastModified><ETag>&quot;{:032x}&quot;</ETag><Size>{}</Size><StorageClass>STANDARD</StorageClass></Contents>",
            xml_escape(&o.key),
            o.last_modified,
            crate::rng::hash_str(&o.key) as u128,
            o.size
        ));
    }
    if truncated {
        s.push_str(&format!(
            "{nl}<NextContinuationToken>1ueGcxLPRx1Tr/XYExHnhbYLgveDs2J/wm36Hy4vbOwM=</NextContinuationToken>"
        ));
    }
    if pretty {
        s.push('\n');
    }
    s.push_str("</ListBucketResult>");
    s
}

pub fn error_xml(code: &str, message: &str, key: Option<&str>) -> String {
    let mut s = String::from("<?xml version=\"1.0\" encoding=\"UTF-8\"?>\n<Error>");
    s.push_str(&format!("<Code>{}</Code><Message>{}</Message>", code, message));
    if let Some(k) = key {
        s.push_str(&format!("<Key>{}</Key>", xml_escape(k)));
    }
    s.push_str("<RequestId>4442587FB7D0A2F9</RequestId><HostId>simulated</HostId></Error>");
    s
}

pub fn status_reply(status: u16, key: Option<&str>) -> Reply {
    let (code, msg) = match status {
        403 => ("AccessDenied", "Access Denied"),
        404 => ("NoSuchKey", "The specified key does not exist."),
        500 => ("InternalError", "We encountered an internal error. Please try again."),
        503 => ("SlowDown", "Please reduce your request rate."),
        _ => ("Error", "error"),
    };
    Reply::Text {
        status,
        body: error_xml(code, msg, key),
    }
}

pub fn rfc3339_ms(ms: i64, fraction: bool) -> String {
    let dt = Utc.timestamp_millis_opt(ms).single().unwrap_or(DateTime::<Utc>::MIN_UTC);
    if fraction {
        dt.format("%Y-%m-%dT%H:%M:%S%.3fZ").to_string()
    } else {
        dt.format("%Y-%m-%dT%H:%M:%SZ").to_string()
    }
}

pub fn rfc2822_ms(ms: i64) -> String {
    let dt = Utc.timestamp_millis_opt(ms).single().unwrap_or(DateTime::<Utc>::MIN_UTC);
    dt.format("%a, %d %b %Y %H:%M:%S GMT").to_string()
}

/// Drives a future to completion on the runtime.
pub fn block_on<F: Future>(rt: &tokio::runtime::Runtime, f: F) -> F::Output {
    rt.block_on(f)
}

/// Directories of the rotating real-time bucket whose keys can match `prefix` under S3's plain
/// string-prefix semantics, in bucket (byte-wise key) order. `"SITE/1"` matches directories 1,
/// 10..19 and 100..199; `"SITE/1/"` matches directory 1 only.
pub fn matching_dirs(site: &str, prefix: &str) -> Vec<usize> {
    // fast path: exactly "SITE/<canonical number>/" (plus an optional name prefix)
    let parts: Vec<&str> = prefix.splitn(3, '/').collect();
    if parts.len() == 3 && parts[0] == site {
        if let Ok(d) = parts[1].parse::<usize>() {
            if parts[1] == d.to_string() && (1..=999).contains(&d) {
                return vec![d];
            }
        }
        return Vec::new();
    }
    let mut dirs: Vec<(String, usize)> = (1..=999usize)
        .map(|d| (format!("{}/{}/", site, d), d))
        .filter(|(dp, _)| dp.starts_with(prefix) || prefix.starts_with(dp.as_str()))
        .collect();
    dirs.sort();
    dirs.into_iter().map(|x| x.1).collect()
}
