#![allow(dead_code)]
//! nxsim - deterministic simulation with fault injection for danielway/nexrad.
//!
//!   nxsim check <id> --tier quick|thorough     run a check (exit 0 held / 1 violation / 2 harness error)
//!   nxsim replay <file>                        re-execute a replay file
//!   nxsim worker ...                           (internal) worker process
//!   nxsim selftest determinism [n]             fingerprints of n seeds per check, printed for diffing
//!   nxsim list                                 list checks

mod alloc;
mod checks;
mod ctx;
mod driver;
mod icd;
mod logsink;
mod rng;
mod rtworld;
mod s3sim;
mod streamsim;
mod tape;
mod workload;

use ctx::Tier;

#[global_allocator]
static GLOBAL: alloc::Counting = alloc::Counting;

fn usage() -> i32 {
    eprintln!("usage: nxsim check <id> [--tier quick|thorough] | replay <file> | selftest determinism [n] | list");
    2
}

fn main() {
    let args: Vec<String> = std::env::args().collect();
    driver::install_panic_hook();
    logsink::install();
    let code = match args.get(1).map(|s| s.as_str()) {
        Some("list") => {
            for c in driver::checks() {
                println!("{} {} {}", c.id(), c.engine(), c.level());
            }
            0
        }
        Some("check") => {
            let id = match args.get(2) {
                Some(i) => i,
                None => std::process::exit(usage()),
            };
            let mut tier = std::env::var("VERIF_TIER").ok().and_then(|t| Tier::parse(&t)).unwrap_or(Tier::Quick);
            let mut i = 3;
            while i < args.len() {
                if args[i] == "--tier" {
                    if let Some(t) = args.get(i + 1).and_then(|t| Tier::parse(t)) {
                        tier = t;
                    } else {
                        std::process::exit(usage());
                    }
                    i += 1;
                }
                i += 1;
            }
            match driver::find(id) {
                Some(c) => driver::check_main(c, tier),
                None => {
                    eprintln!("unknown check {}", id);
                    2
                }
            }
        }
        Some("worker") => {
            // worker <id> <tier> <seed> <w> <nw> <budget>
            if args.len() < 8 {
                std::process::exit(usage());
            }
            let c = match driver::find(&args[2]) {
                Some(c) => c,
                None => std::process::exit(2),
            };
            let tier = Tier::parse(&args[3]).unwrap_or(Tier::Quick);
            let seed: u64 = args[4].parse().unwrap_or(driver::DEFAULT_SEED);
            let w: u64 = args[5].parse().unwrap_or(0);
            let nw: u64 = args[6].parse().unwrap_or(1);
            let budget: u64 = args[7].parse().unwrap_or(60);
            let variant = args.get(8).map(|s| s.as_str()).unwrap_or("std");
            driver::worker_main(c, tier, seed, w, nw, budget, variant)
        }
        Some("run") => {
            // run <id> <tier> <section> <index> [trace]
            let c = driver::find(&args[2]).expect("check");
            driver::apply_variant(&driver::current_variant());
            let tier = Tier::parse(&args[3]).unwrap_or(Tier::Quick);
            let section: u32 = args[4].parse().unwrap();
            let index: u64 = args[5].parse().unwrap();
            let p = ctx::Params {
                property: c.id().to_string(),
                tier,
                section,
                index,
                seed: driver::run_seed(driver::verif_seed(), c.id(), section, index),
                trace: args.get(6).is_some(),
            };
            let t0 = std::time::Instant::now();
            let ex = driver::execute(c, &p, None, true);
            for l in &ex.ctx.trace {
                println!("{}", l);
            }
            println!("fp={:016x} class={:016x} tape={} evals={} sim_ms={} nontrivial={} wall={:?}", ex.ctx.fp.0, ex.ctx.class.0, ex.tape.len(), ex.ctx.evaluations, ex.ctx.sim_ms, ex.ctx.nontrivial, t0.elapsed());
            println!("counters={:?}", ex.ctx.counters);
            println!("violation={:?} harness={:?}", ex.ctx.violation, ex.harness_error);
            let mut p2 = p.clone();
            p2.trace = false;
            let ex2 = driver::execute(c, &p2, None, false);
            println!("again: fp={:016x} tape_equal={} evals={} sim_ms={}", ex2.ctx.fp.0, ex2.tape == ex.tape, ex2.ctx.evaluations, ex2.ctx.sim_ms);
            println!("sample={}", ex.ctx.sample.map(|s| s.to_string()).unwrap_or_default());
            0
        }
        Some("report") => {
            // report <id> <tier> <section> <index> <seed> <signature> <variant> <replay_dir>
            if args.len() < 10 {
                std::process::exit(usage());
            }
            let c = match driver::find(&args[2]) {
                Some(c) => c,
                None => std::process::exit(2),
            };
            let tier = Tier::parse(&args[3]).unwrap_or(Tier::Quick);
            driver::report_main(
                c,
                tier,
                args[4].parse().unwrap_or(0),
                args[5].parse().unwrap_or(0),
                args[6].parse().unwrap_or(0),
                &args[7],
                &args[8],
                &args[9],
                args.get(10).and_then(|s| s.parse().ok()).unwrap_or(0),
                args.get(11).and_then(|s| s.parse().ok()).unwrap_or(0),
                args.get(12).and_then(|s| s.parse().ok()).unwrap_or(driver::DEFAULT_SEED),
            )
        }
        Some("replay") => match args.get(2) {
            Some(f) => driver::replay_main(f),
            None => usage(),
        },
        Some("selftest") => {
            let n: u64 = args.get(3).and_then(|s| s.parse().ok()).unwrap_or(200);
            let only = args.get(4).map(|s| s.as_str()).filter(|s| *s != "all");
            let part = args.get(5).and_then(|s| {
                let mut it = s.split('/');
                Some((it.next()?.parse().ok()?, it.next()?.parse().ok()?))
            });
            driver::selftest_fingerprints(n, only, part)
        }
        _ => usage(),
    };
    std::process::exit(code);
}
