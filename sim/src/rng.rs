//! xoshiro256** and splitmix64, written out so that every platform and every build produces the
//! same stream from the same integer.

#[derive(Clone, Debug)]
pub struct Rng {
    s: [u64; 4],
}

pub fn splitmix64(state: &mut u64) -> u64 {
    *state = state.wrapping_add(0x9E37_79B9_7F4A_7C15);
    let mut z = *state;
    z = (z ^ (z >> 30)).wrapping_mul(0xBF58_476D_1CE4_E5B9);
    z = (z ^ (z >> 27)).wrapping_mul(0x94D0_49BB_1331_11EB);
    z ^ (z >> 31)
}

/// Mixes several integers into one seed.
pub fn mix(parts: &[u64]) -> u64 {
    let mut acc: u64 = 0x243F_6A88_85A3_08D3;
    for p in parts {
        let mut s = acc ^ p.wrapping_mul(0x9E37_79B9_7F4A_7C15);
        acc = splitmix64(&mut s) ^ acc.rotate_left(23);
    }
    acc
}

/// FNV-1a over a string, used to turn a property id into an integer.
pub fn hash_str(s: &str) -> u64 {
    let mut h: u64 = 0xcbf2_9ce4_8422_2325;
    for b in s.bytes() {
        h ^= b as u64;
        h = h.wrapping_mul(0x0000_0100_0000_01B3);
    }
    h
}

impl Rng {
    pub fn new(seed: u64) -> Self {
        let mut sm = seed;
        let s = [
            splitmix64(&mut sm),
            splitmix64(&mut sm),
            splitmix64(&mut sm),
            splitmix64(&mut sm),
        ];
        Rng { s }
    }

    pub fn next_u64(&mut self) -> u64 {
        let result = self.s[1].wrapping_mul(5).rotate_left(7).wrapping_mul(9);
        let t = self.s[1] << 17;
        self.s[2] ^= self.s[0];
        self.s[3] ^= self.s[1];
        self.s[1] ^= self.s[2];
        self.s[0] ^= self.s[3];
        self.s[2] ^= t;
        self.s[3] = self.s[3].rotate_left(45);
        result
    }

    pub fn below(&mut self, bound: u64) -> u64 {
        if bound <= 1 {
            return 0;
        }
        // multiply-shift; the tiny bias is irrelevant here and the result is platform independent
        ((self.next_u64() as u128 * bound as u128) >> 64) as u64
    }

    pub fn fill(&mut self, buf: &mut [u8]) {
        for chunk in buf.chunks_mut(8) {
            let v = self.next_u64().to_le_bytes();
            chunk.copy_from_slice(&v[..chunk.len()]);
        }
    }
}

/// Running hash used for event-log fingerprints.
#[derive(Clone, Copy, Debug)]
pub struct Fp(pub u64);

impl Default for Fp {
    fn default() -> Self {
        Fp(0xcbf2_9ce4_8422_2325)
    }
}

impl Fp {
    pub fn u(&mut self, v: u64) {
        let mut x = self.0 ^ v.wrapping_mul(0x9E37_79B9_7F4A_7C15);
        x = (x ^ (x >> 32)).wrapping_mul(0xD6E8_FEB8_6659_FD93);
        x = (x ^ (x >> 32)).wrapping_mul(0xD6E8_FEB8_6659_FD93);
        self.0 = x ^ (x >> 32);
    }
    pub fn s(&mut self, s: &str) {
        self.u(hash_str(s));
    }
    pub fn b(&mut self, b: &[u8]) {
        let mut h: u64 = 0xcbf2_9ce4_8422_2325;
        for x in b {
            h ^= *x as u64;
            h = h.wrapping_mul(0x0000_0100_0000_01B3);
        }
        self.u(h);
        self.u(b.len() as u64);
    }
}
