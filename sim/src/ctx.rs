//! Per-run context: event log / fingerprint, counters, the first violation, samples.

use crate::rng::Fp;
use std::collections::BTreeMap;

#[derive(Clone, Debug, PartialEq, Eq)]
pub struct Violation {
    /// Which oracle clause failed (stable identifier).
    pub clause: String,
    /// Discriminator: panic location, shape, key ... (stable across runs that hit the same thing).
    pub locus: String,
    /// Free text for humans.
    pub detail: String,
}

impl Violation {
    pub fn signature(&self, property: &str) -> String {
        format!("{}|{}|{}", property, self.clause, self.locus)
    }
}

#[derive(Clone, Debug)]
pub struct Params {
    pub property: String,
    pub tier: Tier,
    pub section: u32,
    pub index: u64,
    pub seed: u64,
    pub trace: bool,
}

#[derive(Clone, Copy, Debug, PartialEq, Eq)]
pub enum Tier {
    Quick,
    Thorough,
}

impl Tier {
    pub fn name(self) -> &'static str {
        match self {
            Tier::Quick => "quick",
            Tier::Thorough => "thorough",
        }
    }
    pub fn parse(s: &str) -> Option<Tier> {
        match s {
            "quick" => Some(Tier::Quick),
            "thorough" => Some(Tier::Thorough),
            _ => None,
        }
    }
}

pub struct Ctx {
    pub trace_on: bool,
    pub trace: Vec<String>,
    pub fp: Fp,
    /// Abstracted history hash (what "distinct" is measured on).
    pub class: Fp,
    pub nontrivial: bool,
    pub evaluations: u64,
    pub sim_ms: u64,
    pub counters: BTreeMap<&'static str, u64>,
    pub violation: Option<Violation>,
    pub sample: Option<serde_json::Value>,
    pub want_sample: bool,
    seq: u64,
}

impl Ctx {
    pub fn new(trace_on: bool, want_sample: bool) -> Self {
        Ctx {
            trace_on,
            trace: Vec::new(),
            fp: Fp::default(),
            class: Fp::default(),
            nontrivial: false,
            evaluations: 0,
            sim_ms: 0,
            counters: BTreeMap::new(),
            violation: None,
            sample: None,
            want_sample,
            seq: 0,
        }
    }

    /// Global event sequence number of the run.
    pub fn next_seq(&mut self) -> u64 {
        self.seq += 1;
        self.seq
    }

    pub fn seq(&self) -> u64 {
        self.seq
    }

    /// Records an event: always hashed into the fingerprint, formatted only when tracing.
    pub fn ev(&mut self, tag: &'static str, nums: &[u64], text: impl FnOnce() -> String) {
        self.fp.s(tag);
        for n in nums {
            self.fp.u(*n);
        }
        if self.trace_on {
            let t = text();
            if std::env::var_os("NXSIM_LIVE").is_some() {
                eprintln!("#{} {} {:?} {}", self.seq, tag, nums, t);
            }
            if self.trace.len() < 20_000 {
                self.trace.push(format!("#{} {} {:?} {}", self.seq, tag, nums, t));
            }
        }
    }

    pub fn count(&mut self, name: &'static str) {
        *self.counters.entry(name).or_insert(0) += 1;
    }

    pub fn add(&mut self, name: &'static str, n: u64) {
        *self.counters.entry(name).or_insert(0) += n;
    }

    /// Registers a violation (the first one wins: later ones are usually consequences).
    pub fn violate(&mut self, clause: &str, locus: String, detail: String) {
        if self.violation.is_none() {
            if self.trace_on {
                self.trace
                    .push(format!("#{} VIOLATION {} [{}] {}", self.seq, clause, locus, detail));
            }
            self.violation = Some(Violation {
                clause: clause.to_string(),
                locus,
                detail,
            });
        }
    }

    pub fn failed(&self) -> bool {
        self.violation.is_some()
    }
}
