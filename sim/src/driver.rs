//! Process model: `check` forks single-threaded worker processes (this same binary), each runs its
//! share of the plan and reports on a pipe; the parent aggregates, minimises violations in-process,
//! writes replay files and the evidence file, and maps everything to exit codes
//! (0 held, 1 violation, 2 harness error - a harness error never prints a VIOLATION line).

use crate::ctx::{Ctx, Params, Tier, Violation};
use crate::rng::{hash_str, mix};
use crate::tape::Tape;
use serde_json::{json, Value};
use std::cell::RefCell;
use std::collections::{BTreeMap, BTreeSet, HashSet};
use std::io::{BufRead, BufReader, Write};
use std::panic::{catch_unwind, AssertUnwindSafe};
use std::process::{Command, Stdio};
use std::time::Instant;

pub const DEFAULT_SEED: u64 = 20_240_804;

pub struct Section {
    pub name: &'static str,
    pub runs: u64,
}

pub trait Check: Sync {
    fn id(&self) -> &'static str;
    fn level(&self) -> &'static str;
    fn engine(&self) -> &'static str;
    fn plan(&self, tier: Tier) -> Vec<Section>;
    fn run(&self, p: &Params, tape: &mut Tape, ctx: &mut Ctx);
    /// How cases are generated and what makes one non-trivial / distinct.
    fn rule(&self) -> &'static str;
    fn assumptions(&self) -> Vec<&'static str>;
    /// Which components ran real code and which were stubbed.
    fn components(&self) -> Value;
    /// Probes (counters) that must be non-zero for the run to count.
    fn required_probes(&self, _tier: Tier) -> Vec<&'static str> {
        Vec::new()
    }
    /// True when the plan enumerates a finite space completely (reported, not trusted blindly).
    fn exhaustive_note(&self, _tier: Tier) -> Option<&'static str> {
        None
    }
    /// Wall-clock budget after which workers stop starting new runs.
    fn budget_s(&self, tier: Tier) -> u64 {
        match tier {
            Tier::Quick => 120,
            Tier::Thorough => 1500,
        }
    }
    /// Per-run wall-clock watchdog in seconds (a run that exceeds it is "does not terminate").
    fn watchdog_s(&self) -> u64 {
        120
    }
}

pub fn checks() -> Vec<&'static dyn Check> {
    crate::checks::all()
}

pub fn find(id: &str) -> Option<&'static dyn Check> {
    checks().into_iter().find(|c| c.id().eq_ignore_ascii_case(id))
}

// ---------------------------------------------------------------------------------------------
// panic capture

thread_local! {
    static LAST_PANIC: RefCell<Option<(String, String)>> = const { RefCell::new(None) };
}

pub fn install_panic_hook() {
    std::panic::set_hook(Box::new(|info| {
        let loc = info
            .location()
            .map(|l| format!("{}:{}", l.file(), l.line()))
            .unwrap_or_else(|| "unknown".to_string());
        let msg = if let Some(s) = info.payload().downcast_ref::<&str>() {
            s.to_string()
        } else if let Some(s) = info.payload().downcast_ref::<String>() {
            s.clone()
        } else {
            "<non-string panic>".to_string()
        };
        LAST_PANIC.with(|p| *p.borrow_mut() = Some((loc, msg)));
    }));
}

fn strip_digits(s: &str) -> String {
    // stable part of a panic message: up to the first value-bearing punctuation, digits removed
    let mut out = String::new();
    let mut last_hash = false;
    for (i, c) in s.chars().enumerate() {
        if i >= 12 && matches!(c, ':' | '{' | '(' | '"' | '\'' | '`' | '[') {
            break;
        }
        if c.is_ascii_digit() {
            if !last_hash {
                out.push('#');
                last_hash = true;
            }
        } else {
            out.push(c);
            last_hash = false;
        }
    }
    out.trim().chars().take(60).collect()
}

fn short_path(p: &str) -> String {
    // keep the path relative to the crate root (stable across checkouts)
    if let Some(i) = p.find("/repo/") {
        return p[i + 6..].to_string();
    }
    if let Some(i) = p.find("/registry/src/") {
        let rest = &p[i + 14..];
        if let Some(j) = rest.find('/') {
            return rest[j + 1..].to_string();
        }
    }
    p.to_string()
}

/// Result of executing one run in-process.
pub struct Exec {
    pub ctx: Ctx,
    pub tape: Vec<u64>,
    /// Set when the harness itself panicked (a bug in /verif, never a finding).
    pub harness_error: Option<String>,
}

/// Executes one run. A panic whose location is inside the harness is a harness error; any other
/// panic is a violation of the "never panics" clause that every claimed property contains.
pub fn execute(check: &dyn Check, p: &Params, tape_data: Option<Vec<u64>>, want_sample: bool) -> Exec {
    let mut tape = match tape_data {
        Some(d) => Tape::replay(d),
        None => Tape::record(p.seed),
    };
    let mut ctx = Ctx::new(p.trace, want_sample);
    LAST_PANIC.with(|lp| *lp.borrow_mut() = None);
    // a quarter of the runs execute with trace logging enabled (decided by the run seed)
    let logging = p.seed % 4 == 1;
    crate::logsink::set(logging);
    if logging {
        ctx.count("trace_logging_enabled");
    }
    let r = catch_unwind(AssertUnwindSafe(|| {
        check.run(p, &mut tape, &mut ctx);
    }));
    crate::logsink::set(false);
    crate::s3sim::uninstall();
    let mut harness_error = None;
    if r.is_err() {
        let (loc, msg) = LAST_PANIC
            .with(|lp| lp.borrow_mut().take())
            .unwrap_or_else(|| ("unknown".into(), "unknown".into()));
        if loc.contains("/verif/sim/src") || loc.starts_with("src/") {
            harness_error = Some(format!("harness panic at {}: {}", loc, msg));
        } else {
            let file = short_path(loc.rsplit_once(':').map(|x| x.0).unwrap_or(&loc));
            ctx.ev("panic", &[], || format!("{} {}", loc, msg));
            // a panic supersedes whatever was noted before it
            ctx.violation = Some(Violation {
                clause: "no-panic".into(),
                locus: format!("{}:{}", file, strip_digits(&msg)),
                detail: format!("panic at {}: {}", loc, msg),
            });
            if ctx.trace_on {
                ctx.trace.push(format!("PANIC at {}: {}", loc, msg));
            }
        }
    }
    Exec {
        ctx,
        tape: tape.used(),
        harness_error,
    }
}

// ---------------------------------------------------------------------------------------------
// plan helpers

pub fn run_seed(verif_seed: u64, property: &str, section: u32, index: u64) -> u64 {
    mix(&[verif_seed, hash_str(property), section as u64, index])
}

fn locate(plan: &[Section], mut g: u64) -> Option<(u32, u64)> {
    for (i, s) in plan.iter().enumerate() {
        if g < s.runs {
            return Some((i as u32, g));
        }
        g -= s.runs;
    }
    None
}

pub fn verif_seed() -> u64 {
    std::env::var("VERIF_SEED")
        .ok()
        .and_then(|s| s.trim().parse::<u64>().ok())
        .unwrap_or(DEFAULT_SEED)
}

pub fn verif_root() -> String {
    std::env::var("NXSIM_ROOT").unwrap_or_else(|_| "/verif".to_string())
}

fn cpu_count() -> usize {
    std::env::var("NXSIM_WORKERS")
        .ok()
        .and_then(|s| s.parse().ok())
        .unwrap_or_else(|| {
            std::thread::available_parallelism()
                .map(|n| n.get())
                .unwrap_or(4)
                .min(16)
        })
}

// ---------------------------------------------------------------------------------------------
// build / environment variants
//
// A *variant* is the pair (binary, process environment) a run executes under:
//   std    - this build: debug assertions and overflow checks on, local time zone UTC
//   tz     - the same binary in a process whose local time zone is not UTC (nothing in nexrad may
//            depend on the zone; chrono caches the zone per process, so it is a per-process choice)
//   plain  - a second build of the harness with the plain release profile (no debug assertions, no
//            overflow checks): what a release user runs; code hidden inside debug_assert! or
//            cfg(debug_assertions) and silent wrap-around only show here
// Workers are assigned a variant by their index; every run is still a pure function of
// (seed, variant). Violations are regenerated, minimised and written to a replay file by a child
// process of the same variant (`nxsim report`), and `nxsim replay` re-executes under the variant
// recorded in the file.

pub const TZ_NON_UTC: &str = "EST5EDT,M3.2.0,M11.1.0";

pub fn variant_of_worker(w: u64, nw: u64) -> &'static str {
    if nw < 4 {
        return "std";
    }
    // roughly 1/8 plain, 1/8 tz, the rest std; the last workers carry the special variants
    let specials = (nw / 8).max(1);
    if w >= nw - specials {
        "tz"
    } else if w >= nw - 2 * specials {
        "plain"
    } else {
        "std"
    }
}

pub fn exe_for(variant: &str) -> std::path::PathBuf {
    let me = std::env::current_exe().expect("current_exe");
    // target/<profile>/nxsim
    let target = me.parent().and_then(|p| p.parent()).map(|p| p.to_path_buf());
    let want = match variant {
        "plain" => "plain",
        _ => "release",
    };
    if let Some(t) = target {
        let cand = t.join(want).join("nxsim");
        if cand.exists() {
            return cand;
        }
    }
    me
}

/// The variant this process runs as (set by `apply_variant`).
pub fn current_variant() -> String {
    std::env::var("NXSIM_VARIANT").unwrap_or_else(|_| "std".to_string())
}

/// Called first thing in a worker / report / replay process.
pub fn apply_variant(variant: &str) {
    std::env::set_var("NXSIM_VARIANT", variant);
    std::env::set_var("TZ", if variant == "tz" { TZ_NON_UTC } else { "UTC0" });
}

pub fn build_is_plain() -> bool {
    !cfg!(debug_assertions) && option_env!("NXSIM_PLAIN").is_some() || std::env::current_exe().map(|p| p.to_string_lossy().contains("/plain/")).unwrap_or(false)
}

// ---------------------------------------------------------------------------------------------
// worker

/// Worker process: runs global run indices w, w+W, w+2W, ... of the plan.
pub fn worker_main(check: &dyn Check, tier: Tier, seed: u64, w: u64, nw: u64, budget_s: u64, variant: &str) -> i32 {
    apply_variant(variant);
    let plan = check.plan(tier);
    let total: u64 = plan.iter().map(|s| s.runs).sum();
    let start = Instant::now();
    let stdout = std::io::stdout();
    let mut out = stdout.lock();

    let mut runs = 0u64;
    let mut evaluations = 0u64;
    let mut nontrivial = 0u64;
    let mut sim_ms = 0u64;
    let mut counters: BTreeMap<String, u64> = BTreeMap::new();
    let mut classes: HashSet<u64> = HashSet::new();
    let mut samples: Vec<Value> = Vec::new();
    let mut violations = 0u64;
    let mut rechecks = 0u64;
    let mut per_section: BTreeMap<u32, u64> = BTreeMap::new();
    let mut skipped = 0u64;

    let mut g = w;
    while g < total {
        if start.elapsed().as_secs() >= budget_s {
            skipped += (total - g + nw - 1) / nw;
            break;
        }
        let (section, index) = locate(&plan, g).unwrap();
        let p = Params {
            property: check.id().to_string(),
            tier,
            section,
            index,
            seed: run_seed(seed, check.id(), section, index),
            trace: false,
        };
        let _ = writeln!(out, "S {}", g);
        let _ = out.flush();
        let want_sample = samples.len() < 3;
        let ex = execute(check, &p, None, want_sample);
        if let Some(h) = ex.harness_error {
            let _ = writeln!(out, "H run {} (section {} index {}): {}", g, section, index, h);
            let _ = out.flush();
            return 2;
        }
        runs += 1;
        *per_section.entry(section).or_insert(0) += 1;
        evaluations += ex.ctx.evaluations.max(1);
        sim_ms += ex.ctx.sim_ms;
        for (k, v) in &ex.ctx.counters {
            *counters.entry(k.to_string()).or_insert(0) += v;
        }
        if ex.ctx.nontrivial {
            nontrivial += 1;
            if classes.len() < 4_000_000 {
                classes.insert(ex.ctx.class.0);
            }
            if let Some(s) = ex.ctx.sample.clone() {
                if samples.len() < 3 {
                    samples.push(s);
                }
            }
        }
        if let Some(v) = &ex.ctx.violation {
            violations += 1;
            if violations <= 200 {
                let line = json!({"g": g, "section": section, "index": index, "seed": p.seed,
                    "clause": v.clause, "locus": v.locus, "detail": v.detail, "variant": variant});
                let _ = writeln!(out, "V {}", line);
                let _ = out.flush();
            }
        }
        // determinism recheck: re-execute a sample of runs and compare fingerprints
        if runs % 64 == 1 {
            let again = execute(check, &p, None, false);
            rechecks += 1;
            if again.ctx.fp.0 != ex.ctx.fp.0 || again.tape != ex.tape {
                let _ = writeln!(
                    out,
                    "H nondeterminism in run {} (section {} index {}): fingerprints {:x} vs {:x}",
                    g, section, index, ex.ctx.fp.0, again.ctx.fp.0
                );
                let _ = out.flush();
                return 2;
            }
        }
        g += nw;
    }

    // classes go to a scratch file the parent merges and deletes
    let dir = format!("{}/sim/target/scratch", verif_root());
    let _ = std::fs::create_dir_all(&dir);
    let path = format!("{}/classes-{}-{}-{}.bin", dir, check.id(), std::process::id(), w);
    let mut buf = Vec::with_capacity(classes.len() * 8);
    for c in &classes {
        buf.extend_from_slice(&c.to_le_bytes());
    }
    let _ = std::fs::write(&path, &buf);

    let summary = json!({
        "runs": runs, "evaluations": evaluations, "nontrivial": nontrivial, "sim_ms": sim_ms,
        "counters": counters, "samples": samples, "violations": violations,
        "rechecks": rechecks, "classes_file": path, "skipped": skipped, "variant": variant,
        "per_section": per_section.iter().map(|(k, v)| (k.to_string(), *v)).collect::<BTreeMap<_, _>>(),
        "wall_s": start.elapsed().as_secs_f64(),
    });
    let _ = writeln!(out, "R {}", summary);
    let _ = out.flush();
    0
}

// ---------------------------------------------------------------------------------------------
// known findings

#[derive(Clone, Debug)]
pub struct Known {
    pub property: String,
    pub signature: String,
    pub what: String,
    pub replay: Option<String>,
}

pub fn load_known() -> Result<Vec<Known>, String> {
    let path = format!("{}/known_findings.json", verif_root());
    let text = match std::fs::read_to_string(&path) {
        Ok(t) => t,
        Err(_) => return Ok(Vec::new()),
    };
    let v: Value = serde_json::from_str(&text).map_err(|e| format!("{}: {}", path, e))?;
    let mut out = Vec::new();
    for f in v["findings"].as_array().cloned().unwrap_or_default() {
        if f["status"].as_str() == Some("known") {
            out.push(Known {
                property: f["property"].as_str().unwrap_or("").to_string(),
                signature: f["signature"].as_str().unwrap_or("").to_string(),
                what: f["what"].as_str().unwrap_or("").to_string(),
                replay: f["replay"].as_str().map(|s| s.to_string()),
            });
        }
    }
    Ok(out)
}

// ---------------------------------------------------------------------------------------------
// minimisation

/// Hypothesis-style tape minimisation: delete spans, zero spans, shrink values, while the same
/// violation signature persists. Bounded by re-run count and wall time.
pub fn minimise(check: &dyn Check, p: &Params, tape: Vec<u64>, signature: &str) -> (Vec<u64>, u64) {
    let start = Instant::now();
    let mut best = tape;
    let mut reruns = 0u64;
    let limit_runs = 2000u64;
    let limit_s = 30u64;
    let still_fails = |cand: &Vec<u64>, reruns: &mut u64| -> bool {
        *reruns += 1;
        let ex = execute(check, p, Some(cand.clone()), false);
        if ex.harness_error.is_some() {
            return false;
        }
        match &ex.ctx.violation {
            Some(v) => v.signature(check.id()) == signature,
            None => false,
        }
    };
    // normalise: what the run actually consumed
    {
        let ex = execute(check, p, Some(best.clone()), false);
        if ex.tape.len() < best.len() {
            best = ex.tape;
        }
    }
    let mut progress = true;
    while progress && reruns < limit_runs && start.elapsed().as_secs() < limit_s {
        progress = false;
        // 1. delete spans (also truncates the tail)
        let mut size = (best.len() / 2).max(1);
        while size >= 1 {
            let mut i = 0usize;
            while i < best.len() && reruns < limit_runs && start.elapsed().as_secs() < limit_s {
                let end = (i + size).min(best.len());
                let mut cand = best.clone();
                cand.drain(i..end);
                if still_fails(&cand, &mut reruns) {
                    best = cand;
                    progress = true;
                } else {
                    i += size;
                }
            }
            if size == 1 {
                break;
            }
            size /= 2;
        }
        // 2. zero spans
        let mut size = (best.len() / 2).max(1);
        while size >= 1 {
            let mut i = 0usize;
            while i < best.len() && reruns < limit_runs && start.elapsed().as_secs() < limit_s {
                let end = (i + size).min(best.len());
                if best[i..end].iter().all(|v| *v == 0) {
                    i += size;
                    continue;
                }
                let mut cand = best.clone();
                for v in &mut cand[i..end] {
                    *v = 0;
                }
                if still_fails(&cand, &mut reruns) {
                    best = cand;
                    progress = true;
                }
                i += size;
            }
            if size == 1 {
                break;
            }
            size /= 2;
        }
        // 3. shrink single values (halve, decrement)
        for i in 0..best.len() {
            if reruns >= limit_runs || start.elapsed().as_secs() >= limit_s {
                break;
            }
            let mut v = best[i];
            while v > 0 && reruns < limit_runs {
                let cand_v = v / 2;
                let mut cand = best.clone();
                cand[i] = cand_v;
                if still_fails(&cand, &mut reruns) {
                    best = cand;
                    v = cand_v;
                    progress = true;
                } else {
                    break;
                }
            }
            if v > 0 && reruns < limit_runs {
                let mut cand = best.clone();
                cand[i] = v - 1;
                if still_fails(&cand, &mut reruns) {
                    best = cand;
                    progress = true;
                }
            }
        }
    }
    // strip trailing zeros (draws past the end return 0 anyway)
    while best.last() == Some(&0) {
        best.pop();
    }
    (best, reruns)
}

// ---------------------------------------------------------------------------------------------
// replay files

pub fn write_replay(
    check: &dyn Check,
    p: &Params,
    tape: &[u64],
    v: &Violation,
    minimised: bool,
    reruns: u64,
    original_len: usize,
    dir: &str,
) -> Result<String, String> {
    // trace of the (minimised) run
    let mut pt = p.clone();
    pt.trace = true;
    let ex = execute(check, &pt, Some(tape.to_vec()), false);
    let _ = std::fs::create_dir_all(dir);
    let sig = v.signature(check.id());
    let path = format!("{}/{}-{}-{:016x}.json", dir, check.id(), p.tier.name(), mix(&[p.seed, hash_str(&sig)]));
    let doc = json!({
        "property": check.id(),
        "tier": p.tier.name(),
        "section": p.section,
        "index": p.index,
        "seed": p.seed,
        "variant": current_variant(),
        "tape": tape,
        "signature": sig,
        "clause": v.clause,
        "locus": v.locus,
        "detail": v.detail,
        "minimised": minimised,
        "minimiser_reruns": reruns,
        "original_tape_len": original_len,
        "trace": ex.ctx.trace,
    });
    std::fs::write(&path, serde_json::to_string_pretty(&doc).unwrap()).map_err(|e| e.to_string())?;
    Ok(path)
}

/// `nxsim replay <file>`: re-executes a replay file in this fresh process.
pub fn replay_main(path: &str) -> i32 {
    let text = match std::fs::read_to_string(path) {
        Ok(t) => t,
        Err(e) => {
            eprintln!("cannot read {}: {}", path, e);
            return 2;
        }
    };
    let doc: Value = match serde_json::from_str(&text) {
        Ok(v) => v,
        Err(e) => {
            eprintln!("cannot parse {}: {}", path, e);
            return 2;
        }
    };
    // re-execute under the variant recorded in the file (other binary and/or environment)
    let variant = doc["variant"].as_str().unwrap_or("std").to_string();
    if std::env::var("NXSIM_REPLAY_INNER").is_err() {
        let status = Command::new(exe_for(&variant))
            .arg("replay")
            .arg(path)
            .env("NXSIM_REPLAY_INNER", "1")
            .env("NXSIM_VARIANT", &variant)
            .env("TZ", if variant == "tz" { TZ_NON_UTC } else { "UTC0" })
            .status();
        return match status {
            Ok(st) => st.code().unwrap_or_else(|| {
                println!("the replay process was killed by a signal (abort, stack overflow or out of memory)");
                println!("VIOLATION property={} replay={}", doc["property"].as_str().unwrap_or(""), path);
                1
            }),
            Err(e) => {
                eprintln!("cannot start the replay process: {}", e);
                2
            }
        };
    }
    let id = doc["property"].as_str().unwrap_or("");
    let check = match find(id) {
        Some(c) => c,
        None => {
            eprintln!("unknown property {}", id);
            return 2;
        }
    };
    if doc["sequence"].is_object() {
        apply_variant(&variant);
        let sq = &doc["sequence"];
        let tier = Tier::parse(doc["tier"].as_str().unwrap_or("quick")).unwrap_or(Tier::Quick);
        let v = run_sequence(check, tier, sq["verif_seed"].as_u64().unwrap_or(DEFAULT_SEED), sq["first"].as_u64().unwrap_or(0), sq["stride"].as_u64().unwrap_or(1), sq["last"].as_u64().unwrap_or(0), true);
        let want = doc["signature"].as_str().unwrap_or("");
        return match v {
            Some(v) => {
                println!("{}: {} [{}] {}", if v.signature(id) == want { "reproduced" } else { "a different violation occurred" }, v.clause, v.locus, v.detail);
                println!("VIOLATION property={} replay={}", id, path);
                1
            }
            None => {
                println!("no violation: the replay file does not reproduce on this tree");
                0
            }
        };
    }
    let p = Params {
        property: id.to_string(),
        tier: Tier::parse(doc["tier"].as_str().unwrap_or("quick")).unwrap_or(Tier::Quick),
        section: doc["section"].as_u64().unwrap_or(0) as u32,
        index: doc["index"].as_u64().unwrap_or(0),
        seed: doc["seed"].as_u64().unwrap_or(0),
        trace: true,
    };
    let tape: Option<Vec<u64>> = doc["tape"]
        .as_array()
        .map(|a| a.iter().map(|x| x.as_u64().unwrap_or(0)).collect());
    let ex = execute(check, &p, tape, false);
    if let Some(h) = ex.harness_error {
        eprintln!("harness error: {}", h);
        return 2;
    }
    for line in &ex.ctx.trace {
        println!("{}", line);
    }
    let want = doc["signature"].as_str().unwrap_or("");
    match &ex.ctx.violation {
        Some(v) if v.signature(id) == want => {
            println!("reproduced: {} [{}] {}", v.clause, v.locus, v.detail);
            println!("VIOLATION property={} replay={}", id, path);
            1
        }
        Some(v) => {
            println!(
                "a different violation occurred: {} (file says {})",
                v.signature(id),
                want
            );
            println!("VIOLATION property={} replay={}", id, path);
            1
        }
        None => {
            println!("no violation: the replay file does not reproduce on this tree");
            0
        }
    }
}

// ---------------------------------------------------------------------------------------------
// parent

struct WorkerResult {
    summary: Option<Value>,
    violations: Vec<Value>,
    harness: Vec<String>,
    last_started: Option<u64>,
    exit_ok: bool,
    exit_desc: String,
}

pub fn check_main(check: &'static dyn Check, tier: Tier) -> i32 {
    let seed = verif_seed();
    let t0 = Instant::now();
    let root = verif_root();
    let plan = check.plan(tier);
    let total: u64 = plan.iter().map(|s| s.runs).sum();
    let nw = cpu_count().max(1) as u64;
    let budget = std::env::var("NXSIM_BUDGET_S")
        .ok()
        .and_then(|s| s.parse().ok())
        .unwrap_or_else(|| check.budget_s(tier));
    println!(
        "nxsim check {} tier={} VERIF_SEED={} runs={} workers={} budget={}s",
        check.id(),
        tier.name(),
        seed,
        total,
        nw,
        budget
    );

    let known = match load_known() {
        Ok(k) => k,
        Err(e) => {
            eprintln!("harness error: {}", e);
            return 2;
        }
    };
    let known_here: Vec<&Known> = known.iter().filter(|k| k.property == check.id()).collect();

    let mut handles = Vec::new();
    let mut variant_workers: BTreeMap<String, u64> = BTreeMap::new();
    for w in 0..nw {
        let variant = variant_of_worker(w, nw);
        let exe = exe_for(variant);
        // if the plain binary has not been built, those workers run the standard build
        let variant = if variant == "plain" && !exe.to_string_lossy().contains("/plain/") { "std" } else { variant };
        *variant_workers.entry(variant.to_string()).or_insert(0) += 1;
        let mut child = Command::new(&exe)
            .arg("worker")
            .arg(check.id())
            .arg(tier.name())
            .arg(seed.to_string())
            .arg(w.to_string())
            .arg(nw.to_string())
            .arg(budget.to_string())
            .arg(variant)
            .stdout(Stdio::piped())
            .stderr(Stdio::inherit())
            .spawn()
            .expect("spawn worker");
        let stdout = child.stdout.take().unwrap();
        let watchdog = check.watchdog_s();
        let h = std::thread::spawn(move || {
            let mut res = WorkerResult {
                summary: None,
                violations: Vec::new(),
                harness: Vec::new(),
                last_started: None,
                exit_ok: false,
                exit_desc: String::new(),
            };
            // watchdog: a separate thread kills the child when no line arrives for too long
            let pid = child.id();
            let progress = std::sync::Arc::new(std::sync::atomic::AtomicU64::new(0));
            let done = std::sync::Arc::new(std::sync::atomic::AtomicBool::new(false));
            let (p2, d2) = (progress.clone(), done.clone());
            let wd = std::thread::spawn(move || {
                let mut last = 0u64;
                let mut idle = 0u64;
                loop {
                    std::thread::sleep(std::time::Duration::from_millis(500));
                    if d2.load(std::sync::atomic::Ordering::Relaxed) {
                        return false;
                    }
                    let cur = p2.load(std::sync::atomic::Ordering::Relaxed);
                    if cur == last {
                        idle += 1;
                        if idle >= watchdog * 2 {
                            unsafe {
                                libc::kill(pid as i32, libc::SIGKILL);
                            }
                            return true;
                        }
                    } else {
                        idle = 0;
                        last = cur;
                    }
                }
            });
            let reader = BufReader::new(stdout);
            for line in reader.lines() {
                let line = match line {
                    Ok(l) => l,
                    Err(_) => break,
                };
                progress.fetch_add(1, std::sync::atomic::Ordering::Relaxed);
                if let Some(rest) = line.strip_prefix("S ") {
                    res.last_started = rest.trim().parse().ok();
                } else if let Some(rest) = line.strip_prefix("V ") {
                    if let Ok(v) = serde_json::from_str::<Value>(rest) {
                        res.violations.push(v);
                    }
                } else if let Some(rest) = line.strip_prefix("H ") {
                    res.harness.push(rest.to_string());
                } else if let Some(rest) = line.strip_prefix("R ") {
                    res.summary = serde_json::from_str::<Value>(rest).ok();
                }
            }
            let status = child.wait();
            done.store(true, std::sync::atomic::Ordering::Relaxed);
            let killed = wd.join().unwrap_or(false);
            match status {
                Ok(s) => {
                    res.exit_ok = s.success();
                    res.exit_desc = if killed {
                        "killed by the watchdog (no progress)".to_string()
                    } else {
                        format!("{}", s)
                    };
                }
                Err(e) => res.exit_desc = format!("wait failed: {}", e),
            }
            res
        });
        handles.push(h);
    }

    let mut results = Vec::new();
    for h in handles {
        results.push(h.join().expect("worker reader thread"));
    }

    // ---- aggregate
    let mut harness_errors: Vec<String> = Vec::new();
    let mut runs = 0u64;
    let mut evaluations = 0u64;
    let mut nontrivial_runs = 0u64;
    let mut sim_ms = 0u64;
    let mut rechecks = 0u64;
    let mut skipped = 0u64;
    let mut counters: BTreeMap<String, u64> = BTreeMap::new();
    let mut per_section: BTreeMap<String, u64> = BTreeMap::new();
    let mut samples: Vec<Value> = Vec::new();
    let mut classes: HashSet<u64> = HashSet::new();
    let mut raw_violations: Vec<Value> = Vec::new();
    let mut total_violations = 0u64;

    for (w, r) in results.iter().enumerate() {
        for h in &r.harness {
            harness_errors.push(format!("worker {}: {}", w, h));
        }
        raw_violations.extend(r.violations.iter().cloned());
        match &r.summary {
            Some(s) => {
                runs += s["runs"].as_u64().unwrap_or(0);
                evaluations += s["evaluations"].as_u64().unwrap_or(0);
                nontrivial_runs += s["nontrivial"].as_u64().unwrap_or(0);
                sim_ms += s["sim_ms"].as_u64().unwrap_or(0);
                rechecks += s["rechecks"].as_u64().unwrap_or(0);
                skipped += s["skipped"].as_u64().unwrap_or(0);
                total_violations += s["violations"].as_u64().unwrap_or(0);
                if let Some(c) = s["counters"].as_object() {
                    for (k, v) in c {
                        *counters.entry(k.clone()).or_insert(0) += v.as_u64().unwrap_or(0);
                    }
                }
                if let Some(c) = s["per_section"].as_object() {
                    for (k, v) in c {
                        let name = k
                            .parse::<usize>()
                            .ok()
                            .and_then(|i| plan.get(i))
                            .map(|s| s.name.to_string())
                            .unwrap_or_else(|| k.clone());
                        *per_section.entry(name).or_insert(0) += v.as_u64().unwrap_or(0);
                    }
                }
                if let Some(a) = s["samples"].as_array() {
                    for x in a {
                        if samples.len() < 6 {
                            samples.push(x.clone());
                        }
                    }
                }
                if let Some(f) = s["classes_file"].as_str() {
                    if let Ok(bytes) = std::fs::read(f) {
                        for c in bytes.chunks_exact(8) {
                            classes.insert(u64::from_le_bytes(c.try_into().unwrap()));
                        }
                    }
                    let _ = std::fs::remove_file(f);
                }
            }
            None => {
                if r.harness.is_empty() {
                    // the worker died without a summary: the run it had announced is the culprit
                    match r.last_started {
                        Some(g) => {
                            let (section, index) = locate(&plan, g).unwrap_or((0, 0));
                            raw_violations.push(json!({
                                "g": g, "section": section, "index": index,
                                "seed": run_seed(seed, check.id(), section, index),
                                "clause": "terminates-without-abort",
                                "locus": "worker-died",
                                "detail": format!("worker process ended ({}) while executing this run: abort, stack overflow, out of memory or no progress", r.exit_desc),
                                "died": true,
                            }));
                            total_violations += 1;
                        }
                        None => harness_errors.push(format!(
                            "worker {} ended ({}) before starting any run",
                            w, r.exit_desc
                        )),
                    }
                }
            }
        }
    }

    if !harness_errors.is_empty() {
        for h in &harness_errors {
            eprintln!("harness error: {}", h);
        }
        println!("HARNESS-ERROR property={} (no verdict)", check.id());
        return 2;
    }

    // ---- known findings are re-executed from their committed replay files
    let mut known_lines = Vec::new();
    let mut known_sigs: BTreeSet<String> = BTreeSet::new();
    for k in &known_here {
        known_sigs.insert(k.signature.clone());
        let mut reproduced = false;
        if let Some(rp) = &k.replay {
            let path = if rp.starts_with('/') { rp.clone() } else { format!("{}/{}", root, rp) };
            if let Ok(text) = std::fs::read_to_string(&path) {
                if let Ok(doc) = serde_json::from_str::<Value>(&text) {
                    let p = Params {
                        property: check.id().to_string(),
                        tier: Tier::parse(doc["tier"].as_str().unwrap_or("quick")).unwrap_or(Tier::Quick),
                        section: doc["section"].as_u64().unwrap_or(0) as u32,
                        index: doc["index"].as_u64().unwrap_or(0),
                        seed: doc["seed"].as_u64().unwrap_or(0),
                        trace: false,
                    };
                    let tape: Option<Vec<u64>> = doc["tape"]
                        .as_array()
                        .map(|a| a.iter().map(|x| x.as_u64().unwrap_or(0)).collect());
                    let ex = execute(check, &p, tape, false);
                    if let Some(v) = &ex.ctx.violation {
                        if v.signature(check.id()) == k.signature {
                            reproduced = true;
                        }
                    }
                }
            }
        }
        if reproduced {
            known_lines.push(format!("KNOWN-FINDING: property={} {}", check.id(), k.what));
        }
    }

    // ---- distinct signatures; minimise and write replay files for the new ones
    let mut by_sig: BTreeMap<String, Value> = BTreeMap::new();
    for v in &raw_violations {
        let sig = format!(
            "{}|{}|{}",
            check.id(),
            v["clause"].as_str().unwrap_or(""),
            v["locus"].as_str().unwrap_or("")
        );
        let better = match by_sig.get(&sig) {
            None => true,
            Some(old) => v["g"].as_u64() < old["g"].as_u64(),
        };
        if better {
            by_sig.insert(sig, v.clone());
        }
    }
    let mut new_violation_lines = Vec::new();
    let mut reported = 0;
    let mut unreported = 0u64;
    let replay_dir = format!("{}/replays", root);
    for (sig, v) in &by_sig {
        if known_sigs.contains(sig) {
            let what = known_here
                .iter()
                .find(|k| &k.signature == sig)
                .map(|k| k.what.clone())
                .unwrap_or_default();
            let line = format!("KNOWN-FINDING: property={} {}", check.id(), what);
            if !known_lines.contains(&line) {
                known_lines.push(line);
            }
            continue;
        }
        if reported >= 8 {
            unreported += 1;
            if unreported <= 4 {
                new_violation_lines.push(format!(
                    "VIOLATION property={} replay=none (further signature {} not minimised)",
                    check.id(),
                    sig
                ));
            }
            continue;
        }
        reported += 1;
        let p = Params {
            property: check.id().to_string(),
            tier,
            section: v["section"].as_u64().unwrap_or(0) as u32,
            index: v["index"].as_u64().unwrap_or(0),
            seed: v["seed"].as_u64().unwrap_or(0),
            trace: false,
        };
        let viol = Violation {
            clause: v["clause"].as_str().unwrap_or("").to_string(),
            locus: v["locus"].as_str().unwrap_or("").to_string(),
            detail: v["detail"].as_str().unwrap_or("").to_string(),
        };
        if v["died"].as_bool() == Some(true) {
            // cannot be re-executed in-process; the replay file regenerates the run from its seed
            let _ = std::fs::create_dir_all(&replay_dir);
            let path = format!("{}/{}-{}-died-{:016x}.json", replay_dir, check.id(), tier.name(), p.seed);
            let doc = json!({"property": check.id(), "tier": tier.name(), "section": p.section,
                "index": p.index, "seed": p.seed, "tape": Value::Null, "signature": sig,
                "clause": viol.clause, "locus": viol.locus, "detail": viol.detail, "minimised": false,
                "note": "replay re-executes the run from its seed; run it with `nxsim replay-child` semantics (it may abort the process)"});
            let _ = std::fs::write(&path, serde_json::to_string_pretty(&doc).unwrap());
            println!("violation: {} :: {}", sig, viol.detail);
            new_violation_lines.push(format!("VIOLATION property={} replay={}", check.id(), path));
            continue;
        }
        // regenerate, minimise and write the replay file in a child process of the same variant
        let variant = v["variant"].as_str().unwrap_or("std").to_string();
        let out = Command::new(exe_for(&variant))
            .arg("report")
            .arg(check.id())
            .arg(tier.name())
            .arg(p.section.to_string())
            .arg(p.index.to_string())
            .arg(p.seed.to_string())
            .arg(sig)
            .arg(&variant)
            .arg(&replay_dir)
            .arg(v["g"].as_u64().unwrap_or(0).to_string())
            .arg(nw.to_string())
            .arg(seed.to_string())
            .stdin(Stdio::null())
            .stderr(Stdio::inherit())
            .output();
        let text = match out {
            Ok(o) => String::from_utf8_lossy(&o.stdout).to_string(),
            Err(e) => {
                eprintln!("harness error: cannot run the report process: {}", e);
                println!("HARNESS-ERROR property={} (no verdict)", check.id());
                return 2;
            }
        };
        let rep: Option<Value> = text.lines().find_map(|l| l.strip_prefix("REPORT ").and_then(|j| serde_json::from_str(j).ok()));
        match rep {
            Some(r) if r["ok"].as_bool() == Some(true) => {
                println!(
                    "violation: {} :: {} (variant {}, tape {} -> {} draws, {} minimiser re-runs)",
                    sig,
                    r["detail"].as_str().unwrap_or(""),
                    variant,
                    r["original_len"],
                    r["final_len"],
                    r["reruns"]
                );
                new_violation_lines.push(format!("VIOLATION property={} replay={}", check.id(), r["path"].as_str().unwrap_or("none")));
            }
            other => {
                eprintln!(
                    "harness error: violation {} of run section={} index={} (variant {}) could not be reproduced by the report process: {:?}",
                    sig, p.section, p.index, variant, other.map(|r| r["error"].clone())
                );
                println!("HARNESS-ERROR property={} (no verdict)", check.id());
                return 2;
            }
        }
    }

    // ---- evidence
    let wall = t0.elapsed().as_secs_f64();
    let mut missing_probes = Vec::new();
    for probe in check.required_probes(tier) {
        if counters.get(probe).copied().unwrap_or(0) == 0 {
            missing_probes.push(probe.to_string());
        }
    }
    let complete = skipped == 0;
    let exhaustive = check.exhaustive_note(tier).is_some() && complete;
    let (faults, probes): (BTreeMap<_, _>, BTreeMap<_, _>) = {
        let mut f = BTreeMap::new();
        let mut p = BTreeMap::new();
        for (k, v) in &counters {
            if let Some(name) = k.strip_prefix("fault.") {
                f.insert(name.to_string(), *v);
            } else {
                p.insert(k.clone(), *v);
            }
        }
        (f, p)
    };
    let evidence = json!({
        "property_id": check.id(),
        "tier": tier.name(),
        "seed": seed,
        "level": check.level(),
        "coverage": {
            "evaluations": evaluations,
            "distinct_nontrivial": classes.len(),
            "rule": check.rule(),
            "samples": samples,
            "exhaustive": exhaustive,
            "exhaustive_note": check.exhaustive_note(tier),
            "runs": runs,
            "runs_planned": total,
            "runs_skipped_by_budget": skipped,
            "runs_per_section": per_section,
            "nontrivial_runs": nontrivial_runs,
            "distinct_histories_measure": "number of distinct abstracted event-log hashes among non-trivial runs",
            "runs_per_hour": if wall > 0.0 { (runs as f64 / wall * 3600.0) as u64 } else { 0 },
            "simulated_seconds": sim_ms / 1000,
            "faults_injected": faults,
            "probes": probes,
            "missing_required_probes": missing_probes,
            "determinism_rechecks": rechecks,
            "workers": nw,
            "workers_per_variant": variant_workers,
            "variants": "std = debug assertions + overflow checks, UTC; tz = same build, non-UTC local time zone; plain = plain release build (no debug assertions, no overflow checks)",
            "engine": check.engine(),
            "components": check.components(),
            "known_findings_reported": known_lines.len(),
        },
        "assumptions": check.assumptions(),
        "wall_s": wall,
        "violations": new_violation_lines.len(),
    });
    let evdir = format!("{}/evidence", root);
    let _ = std::fs::create_dir_all(&evdir);
    let evpath = format!("{}/{}.json", evdir, check.id());
    if let Err(e) = std::fs::write(&evpath, serde_json::to_string_pretty(&evidence).unwrap()) {
        eprintln!("harness error: cannot write {}: {}", evpath, e);
        return 2;
    }
    if tier == Tier::Thorough {
        // keep a copy that a later quick run does not overwrite
        let _ = std::fs::create_dir_all(format!("{}/thorough", evdir));
        let _ = std::fs::write(format!("{}/thorough/{}.json", evdir, check.id()), serde_json::to_string_pretty(&evidence).unwrap());
    }

    for l in &known_lines {
        println!("{}", l);
    }
    if unreported > 4 {
        println!("({} further distinct violation signatures not listed)", unreported - 4);
    }
    println!(
        "{}: runs={} evaluations={} nontrivial={} distinct={} sim_s={} violations_raw={} wall={:.1}s",
        check.id(),
        runs,
        evaluations,
        nontrivial_runs,
        classes.len(),
        sim_ms / 1000,
        total_violations,
        wall
    );
    if !new_violation_lines.is_empty() {
        for l in &new_violation_lines {
            println!("{}", l);
        }
        return 1;
    }
    if !missing_probes.is_empty() {
        eprintln!(
            "harness error: required probes stayed at zero: {:?} (the workload did not reach what the check relies on)",
            missing_probes
        );
        return 2;
    }
    if runs == 0 {
        eprintln!("harness error: no run was executed");
        return 2;
    }
    println!("OK property={} held on everything explored", check.id());
    0
}

// ---------------------------------------------------------------------------------------------
// determinism self-test support: print one fingerprint line per run so that two processes (or two
// worker counts) can be diffed.

pub fn selftest_fingerprints(n: u64, only: Option<&str>, part: Option<(u64, u64)>) -> i32 {
    let mut counter = 0u64;
    let seed = verif_seed();
    let stdout = std::io::stdout();
    let mut out = stdout.lock();
    for check in checks() {
        if let Some(o) = only {
            if !check.id().eq_ignore_ascii_case(o) {
                continue;
            }
        }
        for tier in [Tier::Quick] {
            let plan = check.plan(tier);
            for (si, s) in plan.iter().enumerate() {
                let m = n.min(s.runs);
                for k in 0..m {
                    // spread the indices over the section
                    let index = if m == s.runs { k } else { (k * (s.runs / m)).min(s.runs - 1) };
                    counter += 1;
                    if let Some((kk, mm)) = part {
                        if counter % mm != kk {
                            continue;
                        }
                    }
                    let p = Params {
                        property: check.id().to_string(),
                        tier,
                        section: si as u32,
                        index,
                        seed: run_seed(seed, check.id(), si as u32, index),
                        trace: false,
                    };
                    let ex = execute(check, &p, None, false);
                    if let Some(h) = ex.harness_error {
                        let _ = writeln!(out, "H {} {} {} {}", check.id(), si, index, h);
                        return 2;
                    }
                    let _ = writeln!(
                        out,
                        "{} {} {} {:016x} {:016x} {} {}",
                        check.id(),
                        si,
                        index,
                        ex.ctx.fp.0,
                        ex.ctx.class.0,
                        ex.tape.len(),
                        ex.ctx.violation.map(|v| v.clause).unwrap_or_default()
                    );
                }
            }
        }
    }
    0
}

// ---------------------------------------------------------------------------------------------
// `nxsim report ...` (internal): regenerate one violating run under this process's variant,
// minimise it, write the replay file, print one machine-readable line.

pub fn report_main(check: &dyn Check, tier: Tier, section: u32, index: u64, seed: u64, sig: &str, variant: &str, replay_dir: &str, g: u64, nw: u64, verif_seed: u64) -> i32 {
    apply_variant(variant);
    let p = Params { property: check.id().to_string(), tier, section, index, seed, trace: false };
    let ex = execute(check, &p, None, false);
    if let Some(h) = ex.harness_error {
        println!("REPORT {}", json!({"ok": false, "error": h}));
        return 2;
    }
    // A run that fails differently in a fresh process than it did inside its worker (state kept
    // across calls by the library shifts which call fails first) is still a violating run: it is
    // reported under the signature it shows here.
    let sig_owned: String = match &ex.ctx.violation {
        Some(v) => v.signature(check.id()),
        None => sig.to_string(),
    };
    let sig: &str = &sig_owned;
    let same = ex.ctx.violation.is_some();
    if !same {
        // The run does not fail on its own in a fresh process: the violation may depend on state
        // the library keeps across calls in one process (a static, a cache). Re-execute the
        // worker's whole run sequence up to this run; if that reproduces it, the replay file
        // records the sequence instead of a tape.
        if nw > 0 {
            match run_sequence(check, tier, verif_seed, g % nw, nw, g, false) {
                Some(v) => {
                    let sig_owned = v.signature(check.id());
                    let sig: &str = &sig_owned;
                    let _ = std::fs::create_dir_all(replay_dir);
                    let path = format!("{}/{}-{}-sequence-{:016x}.json", replay_dir, check.id(), tier.name(), mix(&[seed, hash_str(sig)]));
                    let doc = json!({
                        "property": check.id(), "tier": tier.name(), "variant": variant, "signature": sig,
                        "clause": v.clause, "locus": v.locus, "detail": v.detail, "minimised": false,
                        "sequence": {"first": g % nw, "stride": nw, "last": g, "verif_seed": verif_seed},
                        "section": section, "index": index, "seed": seed, "tape": Value::Null,
                        "note": "history-dependent: the run fails only after the earlier runs of the same worker process (state kept across calls inside the library); replay re-executes runs first, first+stride, ... last in one process",
                    });
                    if std::fs::write(&path, serde_json::to_string_pretty(&doc).unwrap()).is_ok() {
                        println!("REPORT {}", json!({"ok": true, "path": path, "detail": format!("{} [only after the preceding runs of the same process]", v.detail), "original_len": 0, "final_len": 0, "reruns": 0}));
                        return 0;
                    }
                }
                _ => {}
            }
        }
        println!("REPORT {}", json!({"ok": false, "error": format!("did not reproduce: got {:?}", ex.ctx.violation.as_ref().map(|v| v.signature(check.id())))}));
        return 2;
    }
    let original_len = ex.tape.len();
    let (min_tape, reruns) = minimise(check, &p, ex.tape.clone(), sig);
    // the minimised tape must still fail the same way; otherwise keep the original
    let confirm = execute(check, &p, Some(min_tape.clone()), false);
    let (tape, v_final, minimised) = match &confirm.ctx.violation {
        Some(x) if x.signature(check.id()) == sig => (min_tape, x.clone(), true),
        _ => (ex.tape.clone(), ex.ctx.violation.clone().unwrap(), false),
    };
    match write_replay(check, &p, &tape, &v_final, minimised, reruns, original_len, replay_dir) {
        Ok(path) => {
            println!("REPORT {}", json!({"ok": true, "path": path, "detail": v_final.detail, "original_len": original_len, "final_len": tape.len(), "reruns": reruns}));
            0
        }
        Err(e) => {
            println!("REPORT {}", json!({"ok": false, "error": e}));
            2
        }
    }
}

/// Executes global runs first, first+stride, ..., last of the plan in this process and returns the
/// violation of the last one (what a worker process with that index did).
pub fn run_sequence(check: &dyn Check, tier: Tier, verif_seed: u64, first: u64, stride: u64, last: u64, trace_last: bool) -> Option<Violation> {
    let plan = check.plan(tier);
    let mut g = first;
    let mut out = None;
    while g <= last {
        let (section, index) = locate(&plan, g)?;
        let p = Params {
            property: check.id().to_string(),
            tier,
            section,
            index,
            seed: run_seed(verif_seed, check.id(), section, index),
            trace: trace_last && g == last,
        };
        let ex = execute(check, &p, None, false);
        // the in-worker determinism recheck re-executes every 64th run: keep the same call sequence
        let runs_so_far = (g - first) / stride.max(1) + 1;
        if runs_so_far % 64 == 1 {
            let mut p2 = p.clone();
            p2.trace = false;
            let _ = execute(check, &p2, None, false);
        }
        if g == last {
            if trace_last {
                for l in &ex.ctx.trace {
                    println!("{}", l);
                }
            }
            out = ex.ctx.violation;
        }
        g += stride.max(1);
    }
    out
}
