//! Reference encoders written from ICD 2620002W (RDA/RPG messages) and ICD 2620010H (Archive II),
//! independent of the repository's structs. Every encoder returns the bytes together with a
//! reference record of what it encoded (boundaries, types, sequence numbers, structure, and the
//! offsets of the fields that fault injection likes to overwrite).

use crate::rng::Rng;
use crate::tape::Tape;

pub const FRAME: usize = 2432;
pub const HEADER: usize = 28; // 12 bytes CTM + 16 bytes message header
pub const FRAME_BODY: usize = FRAME - HEADER;

fn be16(v: u16) -> [u8; 2] {
    v.to_be_bytes()
}
fn be32(v: u32) -> [u8; 4] {
    v.to_be_bytes()
}

/// A finite f32 with "interesting" magnitude drawn from a local PRNG (never NaN: message equality
/// is compared with `==`).
thread_local! {
    /// Checks that do not compare decoded values with `==` allow non-finite floats in valid messages.
    pub static ALLOW_NON_FINITE: std::cell::Cell<bool> = const { std::cell::Cell::new(false) };
}

pub fn finite_f32(r: &mut Rng) -> f32 {
    if ALLOW_NON_FINITE.with(|a| a.get()) && r.below(12) == 0 {
        return [f32::NAN, f32::INFINITY, f32::NEG_INFINITY, -0.0, f32::MIN_POSITIVE / 2.0, f32::MAX][r.below(6) as usize];
    }
    match r.below(6) {
        0 => 0.0,
        1 => -1.0,
        2 => (r.below(72_000) as f32) / 200.0,
        3 => -(r.below(10_000) as f32) / 7.0,
        4 => 1.0e-3 * (r.below(1000) as f32),
        _ => (r.below(2_000_000) as f32) - 1_000_000.0,
    }
}

// ---------------------------------------------------------------------------------------------
// message header (ICD 2620002W table II), preceded by the 12-byte CTM header of Archive II

#[derive(Clone, Debug)]
pub struct MsgHeader {
    pub ctm: [u8; 12],
    pub size_halfwords: u16,
    pub channel: u8,
    pub mtype: u8,
    pub seq: u16,
    pub date: u16,
    pub time_ms: u32,
    pub segments: u16,
    pub segment_number: u16,
}

impl MsgHeader {
    pub fn encode(&self) -> Vec<u8> {
        let mut v = Vec::with_capacity(HEADER);
        v.extend_from_slice(&self.ctm);
        v.extend_from_slice(&be16(self.size_halfwords));
        v.push(self.channel);
        v.push(self.mtype);
        v.extend_from_slice(&be16(self.seq));
        v.extend_from_slice(&be16(self.date));
        v.extend_from_slice(&be32(self.time_ms));
        v.extend_from_slice(&be16(self.segments));
        v.extend_from_slice(&be16(self.segment_number));
        debug_assert_eq!(v.len(), HEADER);
        v
    }
}

pub const CHANNELS: [u8; 6] = [0, 1, 2, 8, 9, 10];

pub fn random_header(r: &mut Rng, mtype: u8, seq: u16, body_len: usize) -> MsgHeader {
    let mut ctm = [0u8; 12];
    r.fill(&mut ctm);
    if ctm[4] == b'B' && ctm[5] == b'Z' {
        // keep a raw message stream from looking like a bzip2 record to Record::compressed()
        ctm[5] = 0;
    }
    // Well-formed headers are truthful: the size is the message length in halfwords including the
    // 16-byte header; a message too long for that field carries the variable-length marker 65535
    // and its size in bytes in the segment-count (high half) and segment-number (low half) fields.
    let bytes = 16 + body_len;
    let (size_halfwords, segments, segment_number) = if bytes / 2 > 65534 {
        (65535u16, (bytes >> 16) as u16, (bytes & 0xFFFF) as u16)
    } else {
        ((bytes / 2) as u16, 1, 1)
    };
    MsgHeader {
        ctm,
        size_halfwords,
        channel: CHANNELS[r.below(6) as usize],
        mtype,
        seq,
        date: 1 + r.below(30000) as u16,
        time_ms: r.below(86_400_000) as u32,
        segments,
        segment_number,
    }
}

// ---------------------------------------------------------------------------------------------
// type 31 (ICD 2620002W table XVII)

pub const MOMENTS: [&str; 7] = ["REF", "VEL", "SW ", "ZDR", "PHI", "RHO", "CFP"];

#[derive(Clone, Debug)]
pub enum BlockKind {
    Vol,
    Elv,
    Rad,
    Moment { name: &'static str, gates: u16, word_bits: u8 },
}

impl BlockKind {
    pub fn name(&self) -> &'static str {
        match self {
            BlockKind::Vol => "VOL",
            BlockKind::Elv => "ELV",
            BlockKind::Rad => "RAD",
            BlockKind::Moment { name, .. } => name,
        }
    }
    pub fn len(&self) -> usize {
        match self {
            BlockKind::Vol => 52,
            BlockKind::Elv => 12,
            BlockKind::Rad => 28,
            BlockKind::Moment { gates, word_bits, .. } => 28 + (*gates as usize) * (*word_bits as usize / 8),
        }
    }
}

/// Offsets (relative to the start of the message, i.e. of its 28-byte header) of one block.
#[derive(Clone, Debug)]
pub struct BlockMap {
    pub name: &'static str,
    pub off: usize,
    pub len: usize,
    /// offsets of gate count and word size (moment blocks only)
    pub gates_off: Option<usize>,
    pub word_off: Option<usize>,
}

#[derive(Clone, Debug)]
pub struct T31Ref {
    pub seq: u16,
    pub elevation_number: u8,
    pub azimuth_number: u16,
    pub vcp: Option<u16>,
    /// total message length including the 28-byte header
    pub len: usize,
    pub off_block_count: usize,
    pub off_pointers: usize,
    /// blocks in pointer order
    pub blocks: Vec<BlockMap>,
    /// gate bytes per moment name
    pub gate_bytes: Vec<(&'static str, Vec<u8>)>,
}

#[derive(Clone, Debug)]
pub struct T31Spec {
    /// blocks in *layout* order
    pub blocks: Vec<BlockKind>,
    /// pointer table: indices into `blocks`
    pub pointer_order: Vec<usize>,
    /// bytes of padding before each block in layout order (0 for a contiguous layout)
    pub gaps: Vec<usize>,
    pub seq: u16,
    pub elevation_number: u8,
    pub azimuth_number: u16,
    pub radial_status: u8,
    pub vcp: u16,
    /// header code fields take arbitrary byte values instead of documented ones
    pub odd_codes: bool,
}

impl T31Spec {
    /// Draws a message shape from the tape. `permute` allows pointer order != layout order,
    /// `gaps` allows padding between blocks, `max_gates` bounds moment sizes.
    pub fn draw(tape: &mut Tape, seq: u16, permute: bool, gaps: bool, max_gates: u16) -> T31Spec {
        let mut blocks = Vec::new();
        // typical message: VOL ELV RAD + some moments; sometimes anything
        let style = tape.weighted(&[5, 2, 1]);
        let include = |tape: &mut Tape, typical: bool| -> bool {
            match style {
                0 => typical || tape.draw(4) == 3,
                1 => tape.draw(2) == 1,
                _ => tape.draw(8) == 7,
            }
        };
        if include(tape, true) {
            blocks.push(BlockKind::Vol);
        }
        if include(tape, true) {
            blocks.push(BlockKind::Elv);
        }
        if include(tape, true) {
            blocks.push(BlockKind::Rad);
        }
        for (i, name) in MOMENTS.iter().enumerate() {
            if include(tape, i < 2) {
                let gates = match tape.weighted(&[24, 8, 4, 4, 1]) {
                    0 => tape.draw(48) as u16,
                    1 => tape.draw(max_gates as u64 + 1) as u16,
                    2 => 0,
                    3 => max_gates,
                    // beyond the ICD's 1840 gates (any u16 is representable on the wire)
                    _ => {
                        if max_gates >= 1840 {
                            [1841u16, 2000, 4000, 65535][tape.draw(4) as usize]
                        } else {
                            max_gates
                        }
                    }
                };
                let word_bits = if tape.draw(4) == 3 { 16 } else { 8 };
                blocks.push(BlockKind::Moment { name, gates, word_bits });
            }
        }
        // layout order
        if tape.draw(3) == 2 {
            for i in (1..blocks.len()).rev() {
                let j = tape.draw(i as u64 + 1) as usize;
                blocks.swap(i, j);
            }
        }
        let mut pointer_order: Vec<usize> = (0..blocks.len()).collect();
        if permute && tape.draw(3) == 2 {
            for i in (1..pointer_order.len()).rev() {
                let j = tape.draw(i as u64 + 1) as usize;
                pointer_order.swap(i, j);
            }
        }
        // beyond well-formed (totality checks only): some blocks referenced more than once
        if ALLOW_NON_FINITE.with(|a| a.get()) && !blocks.is_empty() && tape.draw(8) == 7 {
            let extra = 1 + tape.draw(12) as usize;
            for _ in 0..extra {
                let j = tape.draw(blocks.len() as u64) as usize;
                pointer_order.push(j);
            }
        }
        let gaps_v: Vec<usize> = blocks
            .iter()
            .map(|_| if gaps && tape.draw(4) == 3 { 1 + tape.draw(40) as usize } else { 0 })
            .collect();
        T31Spec {
            blocks,
            pointer_order,
            gaps: gaps_v,
            seq,
            elevation_number: 1 + tape.draw(25) as u8,
            azimuth_number: 1 + tape.draw(720) as u16,
            radial_status: tape.draw(6) as u8,
            vcp: [12u16, 31, 35, 112, 212, 215][tape.draw(6) as usize],
            odd_codes: tape.draw(6) == 5,
        }
    }

    pub fn encode(&self, r: &mut Rng) -> (Vec<u8>, T31Ref) {
        let n = self.blocks.len();
        let np = self.pointer_order.len();
        // body: 32-byte data header + pointers + blocks
        let pointers_off = 32usize;
        let mut cursor = pointers_off + 4 * np;
        let mut block_off = vec![0usize; n];
        for (i, b) in self.blocks.iter().enumerate() {
            cursor += self.gaps[i];
            block_off[i] = cursor;
            cursor += b.len();
        }
        let body_len = cursor;
        let mut body = vec![0u8; body_len];
        // padding bytes are noise, not zeros
        r.fill(&mut body);
        // data header
        body[0..4].copy_from_slice(b"KDMX");
        body[4..8].copy_from_slice(&be32(r.below(86_400_000) as u32));
        body[8..10].copy_from_slice(&be16(1 + r.below(30000) as u16));
        body[10..12].copy_from_slice(&be16(self.azimuth_number));
        let az = if ALLOW_NON_FINITE.with(|a| a.get()) && r.below(16) == 0 { finite_f32(r) } else { (r.below(72000) as f32) / 200.0 };
        body[12..16].copy_from_slice(&az.to_be_bytes());
        body[16] = 0; // compression indicator
        body[17] = 0; // spare
        body[18..20].copy_from_slice(&be16(body_len.min(65535) as u16));
        body[20] = 1 + r.below(2) as u8; // azimuth resolution spacing
        body[21] = self.radial_status;
        body[22] = self.elevation_number;
        body[23] = r.below(4) as u8; // cut sector
        let el = if ALLOW_NON_FINITE.with(|a| a.get()) && r.below(12) == 0 { [f32::NAN, f32::INFINITY, f32::NAN, f32::NEG_INFINITY][r.below(4) as usize] } else { (r.below(4000) as f32) / 200.0 };
        body[24..28].copy_from_slice(&el.to_be_bytes());
        body[28] = 0; // spot blanking
        body[29] = r.below(3) as u8 * 25; // azimuth indexing mode
        if self.odd_codes {
            body[16] = r.below(256) as u8; // compression indicator
            body[20] = [0u8, 0, 3, 255, r.below(256) as u8][r.below(5) as usize]; // azimuth resolution spacing
            body[21] = r.below(256) as u8; // radial status
            body[28] = r.below(256) as u8; // spot blanking
            body[29] = r.below(256) as u8; // azimuth indexing mode
        }
        body[30..32].copy_from_slice(&be16(np as u16));
        // pointers (relative to the start of the data header, i.e. of the body)
        for (k, bi) in self.pointer_order.iter().enumerate() {
            let o = pointers_off + 4 * k;
            body[o..o + 4].copy_from_slice(&be32(block_off[*bi] as u32));
        }
        // blocks
        let mut gate_bytes = Vec::new();
        for (i, b) in self.blocks.iter().enumerate() {
            let o = block_off[i];
            match b {
                BlockKind::Vol => {
                    body[o] = b'R';
                    body[o + 1..o + 4].copy_from_slice(b"VOL");
                    body[o + 4..o + 6].copy_from_slice(&be16(52));
                    body[o + 6] = 1 + r.below(3) as u8;
                    body[o + 7] = r.below(3) as u8;
                    for f in [8usize, 12] {
                        body[o + f..o + f + 4].copy_from_slice(&finite_f32(r).to_be_bytes());
                    }
                    body[o + 16..o + 18].copy_from_slice(&be16(r.below(3000) as u16));
                    body[o + 18..o + 20].copy_from_slice(&be16(r.below(60) as u16));
                    for f in [20usize, 24, 28, 32, 36] {
                        body[o + f..o + f + 4].copy_from_slice(&finite_f32(r).to_be_bytes());
                    }
                    body[o + 40..o + 42].copy_from_slice(&be16(self.vcp));
                    body[o + 42..o + 44].copy_from_slice(&be16(r.below(8) as u16));
                    body[o + 44..o + 46].copy_from_slice(&be16(r.below(200) as u16));
                    // spare 46..52 stays noise
                }
                BlockKind::Elv => {
                    body[o] = b'R';
                    body[o + 1..o + 4].copy_from_slice(b"ELV");
                    body[o + 4..o + 6].copy_from_slice(&be16(12));
                    body[o + 6..o + 8].copy_from_slice(&be16(r.below(65536) as u16));
                    body[o + 8..o + 12].copy_from_slice(&finite_f32(r).to_be_bytes());
                }
                BlockKind::Rad => {
                    body[o] = b'R';
                    body[o + 1..o + 4].copy_from_slice(b"RAD");
                    body[o + 4..o + 6].copy_from_slice(&be16(28));
                    body[o + 6..o + 8].copy_from_slice(&be16(r.below(5000) as u16));
                    body[o + 8..o + 12].copy_from_slice(&finite_f32(r).to_be_bytes());
                    body[o + 12..o + 16].copy_from_slice(&finite_f32(r).to_be_bytes());
                    body[o + 16..o + 18].copy_from_slice(&be16(r.below(4000) as u16));
                    body[o + 18..o + 20].copy_from_slice(&be16(r.below(4) as u16));
                    body[o + 20..o + 24].copy_from_slice(&finite_f32(r).to_be_bytes());
                    body[o + 24..o + 28].copy_from_slice(&finite_f32(r).to_be_bytes());
                }
                BlockKind::Moment { name, gates, word_bits } => {
                    body[o] = b'D';
                    body[o + 1..o + 4].copy_from_slice(name.as_bytes());
                    body[o + 4..o + 8].copy_from_slice(&be32(0));
                    body[o + 8..o + 10].copy_from_slice(&be16(*gates));
                    body[o + 10..o + 12].copy_from_slice(&be16(r.below(3000) as u16));
                    body[o + 12..o + 14].copy_from_slice(&be16(250));
                    body[o + 14..o + 16].copy_from_slice(&be16(r.below(100) as u16));
                    body[o + 16..o + 18].copy_from_slice(&be16(r.below(100) as u16));
                    body[o + 18] = r.below(4) as u8;
                    body[o + 19] = *word_bits;
                    body[o + 20..o + 24].copy_from_slice(&(if r.below(5) == 0 { 0.0f32 } else { 0.5 + r.below(200) as f32 }).to_be_bytes());
                    body[o + 24..o + 28].copy_from_slice(&finite_f32(r).to_be_bytes());
                    // gate data stays the noise written above
                    let dl = (*gates as usize) * (*word_bits as usize / 8);
                    gate_bytes.push((*name, body[o + 28..o + 28 + dl].to_vec()));
                }
            }
        }
        let header = random_header(r, 31, self.seq, body_len);
        let mut msg = header.encode();
        msg.extend_from_slice(&body);
        let blocks = self
            .pointer_order
            .iter()
            .map(|bi| {
                let b = &self.blocks[*bi];
                let o = HEADER + block_off[*bi];
                let is_moment = matches!(b, BlockKind::Moment { .. });
                BlockMap {
                    name: b.name(),
                    off: o,
                    len: b.len(),
                    gates_off: if is_moment { Some(o + 8) } else { None },
                    word_off: if is_moment { Some(o + 19) } else { None },
                }
            })
            .collect();
        let rf = T31Ref {
            seq: self.seq,
            elevation_number: self.elevation_number,
            azimuth_number: self.azimuth_number,
            vcp: if self.blocks.iter().any(|b| matches!(b, BlockKind::Vol)) { Some(self.vcp) } else { None },
            len: msg.len(),
            off_block_count: HEADER + 30,
            off_pointers: HEADER + pointers_off,
            blocks,
            gate_bytes,
        };
        (msg, rf)
    }
}

// ---------------------------------------------------------------------------------------------
// type 5: volume coverage pattern (ICD 2620002W table XI)

#[derive(Clone, Debug, PartialEq, Eq)]
pub struct VcpCut {
    pub channel_configuration: u8,
    pub waveform: u8,
    pub super_res: u8,
}

#[derive(Clone, Debug)]
pub struct VcpSpec {
    pub pattern_number: u16,
    pub declared_cuts: u16,
    pub cuts: Vec<VcpCut>,
}

impl VcpSpec {
    pub fn draw(tape: &mut Tape, max_cuts: usize) -> VcpSpec {
        let n = match tape.weighted(&[6, 1, 1]) {
            0 => 1 + tape.draw(max_cuts.min(25) as u64) as usize,
            1 => max_cuts,
            _ => tape.draw(3) as usize,
        };
        let cuts = (0..n)
            .map(|_| VcpCut {
                channel_configuration: tape.draw(4) as u8,
                waveform: tape.draw(7) as u8,
                super_res: tape.draw(16) as u8,
            })
            .collect();
        VcpSpec {
            pattern_number: [12u16, 31, 35, 112, 212, 215][tape.draw(6) as usize],
            declared_cuts: n as u16,
            cuts,
        }
    }

    /// The body without frame padding: 11 halfwords + 23 halfwords per cut.
    pub fn encode_body(&self, r: &mut Rng) -> Vec<u8> {
        let mut v = Vec::with_capacity(22 + 46 * self.cuts.len());
        let size_hw = (11 + 23 * self.cuts.len()) as u16;
        v.extend_from_slice(&be16(size_hw));
        v.extend_from_slice(&be16(2)); // pattern type: constant elevation cut
        v.extend_from_slice(&be16(self.pattern_number));
        v.extend_from_slice(&be16(self.declared_cuts));
        v.push(1); // version
        v.push(1); // clutter map group
        v.push(2 + 2 * r.below(2) as u8); // doppler velocity resolution
        v.push(2 + 2 * r.below(2) as u8); // pulse width
        v.extend_from_slice(&be32(0));
        v.extend_from_slice(&be16(r.below(65536) as u16)); // sequencing
        v.extend_from_slice(&be16(r.below(65536) as u16)); // supplemental
        v.extend_from_slice(&be16(0));
        debug_assert_eq!(v.len(), 22);
        for c in &self.cuts {
            let start = v.len();
            v.extend_from_slice(&be16(r.below(65536) as u16)); // elevation angle
            v.push(c.channel_configuration);
            v.push(c.waveform);
            v.push(c.super_res);
            v.push(r.below(9) as u8); // surveillance prf number
            for _ in 0..20 {
                v.extend_from_slice(&be16(r.below(65536) as u16));
            }
            debug_assert_eq!(v.len() - start, 46);
        }
        v
    }
}

// ---------------------------------------------------------------------------------------------
// fixed 2432-byte frames

/// A complete frame for a fixed-length message type; `body` is padded (with noise) or must fit.
pub fn frame(r: &mut Rng, mtype: u8, seq: u16, body: &[u8]) -> Vec<u8> {
    frame_seg(r, mtype, seq, body, 1, 1)
}

/// A frame that is segment `number` of `segments` of a segmented message (the RDA numbers the
/// frames of its long metadata messages 1/n .. n/n).
pub fn frame_seg(r: &mut Rng, mtype: u8, seq: u16, body: &[u8], segments: u16, number: u16) -> Vec<u8> {
    assert!(body.len() <= FRAME_BODY);
    let mut h = random_header(r, mtype, seq, body.len());
    h.segments = segments;
    h.segment_number = number;
    let mut v = h.encode();
    v.extend_from_slice(body);
    let mut pad = vec![0u8; FRAME - v.len()];
    r.fill(&mut pad);
    v.extend_from_slice(&pad);
    v
}

// ---------------------------------------------------------------------------------------------
// type 15 body: clutter filter map (ICD 2620002W table XIV)

#[derive(Clone, Debug, PartialEq, Eq)]
pub struct CfmRef {
    pub date: u16,
    pub minutes: u16,
    /// segments -> 360 azimuths -> zones (op code, end range)
    pub segments: Vec<Vec<Vec<(u16, u16)>>>,
    /// byte offsets of structural boundaries (after header, after each azimuth header, after each zone)
    pub boundaries: Vec<usize>,
    /// byte offset just after each complete elevation segment
    pub segment_ends: Vec<usize>,
}

pub fn clutter_filter_map(tape: &mut Tape, r: &mut Rng, max_segments: usize, big_zone: bool) -> (Vec<u8>, CfmRef) {
    let nseg = match tape.weighted(&[6, 2, 1, 1]) {
        0 => 1 + tape.draw(5.min(max_segments as u64)) as usize,
        1 => 0,
        2 => tape.draw(max_segments as u64 + 1) as usize,
        _ => max_segments,
    };
    let zone_mode = [0u64, 1, 2, 5][tape.weighted(&[5, 2, 1, 2])];
    let big_at = if big_zone && nseg > 0 && tape.draw(3) == 2 {
        // boundary counts (powers of two, multiples of a frame's worth of zones, the maximum) and arbitrary ones
        let count = match tape.weighted(&[2, 3]) {
            0 => 26 + tape.draw(65510) as usize,
            _ => [16384usize, 16383, 16385, 604, 1208, 1812, 32768, 65535, 4096, 256][tape.draw(10) as usize],
        };
        Some((tape.draw(nseg as u64) as usize, tape.draw(360) as usize, count))
    } else {
        None
    };
    clutter_filter_map_with(r, nseg, zone_mode, big_at)
}

/// `zone_mode` 0: 1..4 zones, 1: 0..25, 2: 0 or 25, 3: 40..60 zones in every azimuth (bodies above
/// 16 MiB for about 200 segments or more), 4: 0..1 zones (compact maps).
pub fn clutter_filter_map_with(r: &mut Rng, nseg: usize, zone_mode: u64, big_at: Option<(usize, usize, usize)>) -> (Vec<u8>, CfmRef) {
    let date = 1 + r.below(30000) as u16;
    let minutes = r.below(1440) as u16;
    let mut v = Vec::new();
    v.extend_from_slice(&be16(date));
    v.extend_from_slice(&be16(minutes));
    v.extend_from_slice(&be16(nseg as u16));
    let mut boundaries = vec![v.len()];
    let mut segments = Vec::with_capacity(nseg);
    let mut segment_ends = Vec::with_capacity(nseg);
    let related_map = matches!(zone_mode, 0 | 1 | 2 | 5) && r.below(2) == 0;
    for s in 0..nseg {
        let mut az: Vec<Vec<(u16, u16)>> = Vec::with_capacity(360);
        for a in 0..360 {
            let mut count = match zone_mode {
                0 => 1 + r.below(4) as usize,
                1 => r.below(26) as usize,
                2 => r.below(2) as usize * 25,
                3 => 40 + r.below(21) as usize,
                5 => {
                    // mostly short lists, now and then a long one of varying length
                    if r.below(50) == 0 {
                        65 + r.below(400) as usize
                    } else {
                        r.below(6) as usize
                    }
                }
                _ => r.below(2) as usize,
            };
            if let Some((bs, ba, bc)) = big_at {
                if bs == s && ba == a {
                    count = bc;
                }
            }
            // Neighbouring azimuths of a real map are usually coded alike: now and then an azimuth
            // repeats its predecessor exactly, or with one zone changed, a longer or a shorter list.
            let is_big = matches!(big_at, Some((bs, ba, _)) if bs == s && ba == a);
            let mut zones: Vec<(u16, u16)> = Vec::new();
            let mut related = false;
            if related_map && a > 0 && !is_big && r.below(4) == 0 {
                let prev: &Vec<(u16, u16)> = &az[a - 1];
                if !prev.is_empty() {
                    related = true;
                    zones = prev.clone();
                    match r.below(6) {
                        0 => {}
                        1 => {
                            let k = r.below(zones.len() as u64) as usize;
                            zones[k].1 = (zones[k].1 + 1 + r.below(500) as u16) % 512;
                        }
                        2 => {
                            let k = zones.len() - 1;
                            zones[k].0 = (zones[k].0 + 1) % 3;
                        }
                        3 => {
                            let extra = [1usize, 2, 64, 128, 256, 20][r.below(6) as usize];
                            for _ in 0..extra {
                                zones.push((r.below(3) as u16, r.below(512) as u16));
                            }
                        }
                        4 => {
                            let keep = r.below(zones.len() as u64) as usize;
                            zones.truncate(keep);
                        }
                        _ => {
                            // same prefix of 20 (the customary maximum), different afterwards
                            let k = zones.len() - 1 - r.below((zones.len() as u64).min(3)) as usize;
                            zones[k] = ((zones[k].0 + 1) % 3, zones[k].1 ^ 1);
                        }
                    }
                }
            }
            if related {
                // the count is a 16-bit field
                zones.truncate(65535);
                count = zones.len();
            }
            v.extend_from_slice(&be16(count as u16));
            boundaries.push(v.len());
            if related {
                for &(op, end) in &zones {
                    v.extend_from_slice(&be16(op));
                    v.extend_from_slice(&be16(end));
                    boundaries.push(v.len());
                }
            } else {
                zones.reserve(count);
                for _ in 0..count {
                    let op = r.below(3) as u16;
                    // 511 km is the conventional end of the last zone; it also occurs elsewhere
                    let end = if r.below(8) == 0 { 511 } else { r.below(512) as u16 };
                    v.extend_from_slice(&be16(op));
                    v.extend_from_slice(&be16(end));
                    zones.push((op, end));
                    boundaries.push(v.len());
                }
            }
            az.push(zones);
        }
        segments.push(az);
        segment_ends.push(v.len());
    }
    (
        v,
        CfmRef {
            date,
            minutes,
            segments,
            boundaries,
            segment_ends,
        },
    )
}

// ---------------------------------------------------------------------------------------------
// Archive II container (ICD 2620010H section 7)

pub fn volume_header(version: &str, extension: u16, date: u32, time_ms: u32, icao: &str) -> Vec<u8> {
    let mut v = Vec::with_capacity(24);
    let name = format!("AR2V000{}.", version);
    v.extend_from_slice(&name.as_bytes()[..9]);
    v.extend_from_slice(format!("{:03}", extension % 1000).as_bytes());
    v.extend_from_slice(&be32(date));
    v.extend_from_slice(&be32(time_ms));
    v.extend_from_slice(&icao.as_bytes()[..4]);
    debug_assert_eq!(v.len(), 24);
    v
}

pub fn bzip2_compress(payload: &[u8]) -> Vec<u8> {
    use bzip2::read::BzEncoder;
    use bzip2::Compression;
    use std::io::Read;
    let mut out = Vec::new();
    BzEncoder::new(payload, Compression::fast())
        .read_to_end(&mut out)
        .expect("bzip2 compression of an in-memory buffer");
    out
}

/// An LDM record whose compressed part consists of several bzip2 members one after the other
/// (what `cat a.bz2 b.bz2` or a parallel compressor produces): still one size prefix.
pub fn ldm_record_members(payload: &[u8], split_at: &[usize], negative: bool) -> Vec<u8> {
    let mut z = Vec::new();
    let mut from = 0;
    for &t in split_at.iter().chain(std::iter::once(&payload.len())) {
        let t = t.clamp(from, payload.len());
        z.extend_from_slice(&bzip2_compress(&payload[from..t]));
        from = t;
    }
    let size = z.len() as i32;
    let prefix = if negative { -size } else { size };
    let mut v = Vec::with_capacity(4 + z.len());
    v.extend_from_slice(&prefix.to_be_bytes());
    v.extend_from_slice(&z);
    v
}

/// An LDM record: 4-byte big-endian size prefix (negative when `negative`) + bzip2 stream.
pub fn ldm_record(payload: &[u8], negative: bool) -> Vec<u8> {
    let z = bzip2_compress(payload);
    let size = z.len() as i32;
    let prefix = if negative { -size } else { size };
    let mut v = Vec::with_capacity(4 + z.len());
    v.extend_from_slice(&prefix.to_be_bytes());
    v.extend_from_slice(&z);
    v
}
