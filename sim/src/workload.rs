//! Message-stream workloads built from the reference encoders, with the reference record of what
//! was encoded.

use crate::icd::{self, T31Ref, T31Spec, VcpSpec, FRAME, FRAME_BODY, HEADER};
use crate::rng::Rng;
use crate::tape::Tape;

#[derive(Clone, Debug)]
pub struct MsgRef {
    pub off: usize,
    pub len: usize,
    pub mtype: u8,
    pub seq: u16,
    pub date: u16,
    pub time_ms: u32,
    pub t31: Option<T31Ref>,
    pub vcp_cuts: Option<usize>,
}

#[derive(Clone, Debug, Default)]
pub struct Stream {
    pub bytes: Vec<u8>,
    pub msgs: Vec<MsgRef>,
    /// frames that belong to segmented (k/n numbered) messages
    pub segment_groups: usize,
}

#[derive(Clone, Debug)]
pub struct StreamOpts {
    pub max_msgs: usize,
    pub permute_pointers: bool,
    pub gaps: bool,
    pub max_gates: u16,
    /// percentage of type-31 messages
    pub t31_percent: u64,
    /// opaque / status bodies always get this many boundary-valued halfwords (0 = now and then)
    pub extreme_halfwords: u64,
}

impl Stream {
    pub fn boundaries(&self) -> Vec<usize> {
        let mut b: Vec<usize> = self.msgs.iter().map(|m| m.off).collect();
        b.push(self.bytes.len());
        b
    }

    /// Number of complete messages in the first `t` bytes and whether `t` falls inside a body.
    pub fn classify_cut(&self, t: usize) -> (usize, bool) {
        let mut k = 0;
        for m in &self.msgs {
            if t >= m.off + m.len {
                k += 1;
            } else {
                let inside_body = t >= m.off + icd::HEADER;
                return (k, inside_body);
            }
        }
        (k, false)
    }
}

/// Appends one message of the given type.
pub fn push_message(s: &mut Stream, tape: &mut Tape, r: &mut Rng, mtype: u8, seq: u16, opts: &StreamOpts) {
    let off = s.bytes.len();
    if mtype == 31 {
        let spec = T31Spec::draw(tape, seq, opts.permute_pointers, opts.gaps, opts.max_gates);
        let (bytes, rf) = spec.encode(r);
        let date = u16::from_be_bytes([bytes[18], bytes[19]]);
        let time_ms = u32::from_be_bytes([bytes[20], bytes[21], bytes[22], bytes[23]]);
        s.bytes.extend_from_slice(&bytes);
        s.msgs.push(MsgRef { off, len: bytes.len(), mtype, seq, date, time_ms, t31: Some(rf), vcp_cuts: None });
        return;
    }
    let (body, cuts) = match mtype {
        5 => {
            let spec = VcpSpec::draw(tape, 51);
            let n = spec.cuts.len();
            (spec.encode_body(r), Some(n))
        }
        _ => {
            // opaque body (type 2 decodes any 120 bytes; everything else is skipped)
            let n = match tape.weighted(&[3, 1, 1]) {
                0 => FRAME_BODY,
                1 => 0,
                _ => tape.draw(FRAME_BODY as u64 + 1) as usize,
            };
            let mut b = vec![0u8; n];
            r.fill(&mut b);
            // a few halfwords take boundary values (sign bit only, all ones, ...)
            if n >= 120 && opts.extreme_halfwords > 0 {
                // every 16-bit field of the first 60 takes a boundary value with probability 1/5
                let mut rr = tape.fork();
                for h in 0..60usize {
                    if rr.below(5) == 0 {
                        let v = [0x8000u16, 0x8000, 0xFFFF, 0x7FFF, 0, 1][rr.below(6) as usize];
                        b[2 * h..2 * h + 2].copy_from_slice(&v.to_be_bytes());
                    }
                }
            } else if n >= 120 && tape.draw(3) == 2 {
                for _ in 0..(1 + tape.draw(3)) {
                    let o = 2 * tape.draw(60) as usize;
                    let v = [0x8000u16, 0xFFFF, 0x7FFF, 0, 1][tape.draw(5) as usize];
                    b[o..o + 2].copy_from_slice(&v.to_be_bytes());
                }
            }
            (b, None)
        }
    };
    let bytes = icd::frame(r, mtype, seq, &body);
    debug_assert_eq!(bytes.len(), FRAME);
    let date = u16::from_be_bytes([bytes[18], bytes[19]]);
    let time_ms = u32::from_be_bytes([bytes[20], bytes[21], bytes[22], bytes[23]]);
    s.bytes.extend_from_slice(&bytes);
    s.msgs.push(MsgRef { off, len: FRAME, mtype, seq, date, time_ms, t31: None, vcp_cuts: cuts });
}

/// Appends one type-31 message sized so that the total becomes a multiple of 2432 bytes, then
/// (optionally) opaque frames until the stream is exactly `frames` frames long.
pub fn pad_to_frame_multiple(s: &mut Stream, tape: &mut Tape, frames: Option<usize>) {
    let mut r = tape.fork();
    let len = s.bytes.len();
    let mut d = (FRAME - len % FRAME) % FRAME;
    // smallest message with one 8-bit moment block: 28 + 32 + 4 + 28 = 92 bytes
    while d < 92 {
        d += FRAME;
    }
    let gates = (d - 92) as u16;
    let spec = T31Spec {
        blocks: vec![icd::BlockKind::Moment { name: "REF", gates, word_bits: 8 }],
        pointer_order: vec![0],
        gaps: vec![0],
        seq: 40_000,
        elevation_number: 3,
        azimuth_number: 5,
        radial_status: 1,
        vcp: 212,
        odd_codes: false,
    };
    let (bytes, rf) = spec.encode(&mut r);
    let off = s.bytes.len();
    let date = u16::from_be_bytes([bytes[18], bytes[19]]);
    let time_ms = u32::from_be_bytes([bytes[20], bytes[21], bytes[22], bytes[23]]);
    s.bytes.extend_from_slice(&bytes);
    s.msgs.push(MsgRef { off, len: bytes.len(), mtype: 31, seq: 40_000, date, time_ms, t31: Some(rf), vcp_cuts: None });
    if let Some(f) = frames {
        let mut k = 0u16;
        while s.bytes.len() / FRAME < f {
            let off = s.bytes.len();
            let mut body = vec![0u8; FRAME_BODY];
            r.fill(&mut body);
            let seq = 41_000 + k;
            let bytes = icd::frame(&mut r, [2u8, 3, 13, 15, 18][k as usize % 5], seq, &body);
            let date = u16::from_be_bytes([bytes[18], bytes[19]]);
            let time_ms = u32::from_be_bytes([bytes[20], bytes[21], bytes[22], bytes[23]]);
            s.bytes.extend_from_slice(&bytes);
            s.msgs.push(MsgRef { off, len: FRAME, mtype: [2u8, 3, 13, 15, 18][k as usize % 5], seq, date, time_ms, t31: None, vcp_cuts: None });
            k += 1;
        }
    }
}

pub fn draw_type(tape: &mut Tape, t31_percent: u64) -> u8 {
    if tape.draw(100) < t31_percent {
        return 31;
    }
    match tape.weighted(&[3, 3, 2, 4]) {
        0 => 2,
        1 => 5,
        2 => [1u8, 3, 4, 6, 13, 15, 18, 32, 33][tape.draw(9) as usize],
        _ => {
            // any code except 31
            let c = tape.draw(255) as u8;
            if c >= 31 {
                c + 1
            } else {
                c
            }
        }
    }
}

pub fn build_stream(tape: &mut Tape, opts: &StreamOpts) -> Stream {
    let n = match tape.weighted(&[5, 3, 1, 1]) {
        0 => 1 + tape.draw(6) as usize,
        1 => tape.draw(opts.max_msgs.min(40) as u64 + 1) as usize,
        2 => tape.draw(opts.max_msgs as u64 + 1) as usize,
        _ => 0,
    }
    .min(opts.max_msgs);
    let mut r = tape.fork();
    let mut s = Stream::default();
    // sequence numbers run through the 16-bit range, including the 0x7FFF -> 0 and 0xFFFF wraps
    let seq0 = match tape.weighted(&[6, 1, 1]) {
        0 => tape.draw(60000) as u16,
        1 => 0xFFFFu16.wrapping_sub(tape.draw(4) as u16),
        _ => 0x7FFFu16.wrapping_sub(tape.draw(4) as u16),
    };
    let mut i = 0;
    while i < n {
        let mtype = draw_type(tape, opts.t31_percent);
        if mtype != 31 && mtype != 5 && mtype != 2 && tape.draw(4) == 3 {
            // a segmented metadata message: frames 1/k .. k/k of the same type, back to back
            let k = 2 + tape.draw(4) as u16;
            for j in 1..=k {
                if i >= n {
                    break;
                }
                let off = s.bytes.len();
                let mut body = vec![0u8; FRAME_BODY];
                r.fill(&mut body);
                let seq = seq0.wrapping_add(i as u16);
                let bytes = icd::frame_seg(&mut r, mtype, seq, &body, k, j);
                let date = u16::from_be_bytes([bytes[18], bytes[19]]);
                let time_ms = u32::from_be_bytes([bytes[20], bytes[21], bytes[22], bytes[23]]);
                s.bytes.extend_from_slice(&bytes);
                s.msgs.push(MsgRef { off, len: FRAME, mtype, seq, date, time_ms, t31: None, vcp_cuts: None });
                s.segment_groups += 1;
                i += 1;
            }
            continue;
        }
        push_message(&mut s, tape, &mut r, mtype, seq0.wrapping_add(i as u16), opts);
        i += 1;
    }
    s
}

// ---------------------------------------------------------------------------------------------
// Archive II volumes and real-time chunks

#[derive(Clone, Debug, Default)]
pub struct Volume {
    pub bytes: Vec<u8>,
    /// (offset of the size prefix, total length including the prefix) per LDM record
    pub records: Vec<(usize, usize)>,
    pub messages: usize,
    pub radials: usize,
}

/// A well-formed volume: 24-byte header + `n` bzip2-compressed LDM records of message streams.
pub fn build_volume(tape: &mut Tape, max_records: usize, opts: &StreamOpts) -> Volume {
    build_volume_inner(tape, max_records, opts, false).0
}

/// Like `build_volume`; with `inner_faults` some records carry a payload that was damaged or cut
/// *before* compression, so the container (size prefix, bzip2 stream) is intact while the message
/// stream inside is not. Returns the notes of what was done.
pub fn build_volume_inner(tape: &mut Tape, max_records: usize, opts: &StreamOpts, inner_faults: bool) -> (Volume, Vec<String>) {
    let mut notes = Vec::new();
    let n = match tape.weighted(&[5, 2, 1]) {
        0 => 1 + tape.draw(max_records.min(3) as u64) as usize,
        1 => tape.draw(max_records as u64 + 1) as usize,
        _ => 0,
    };
    let mut v = Volume::default();
    v.bytes = icd::volume_header(
        ["2", "3", "4", "5", "6", "7"][tape.draw(6) as usize],
        1 + tape.draw(999) as u16,
        1 + tape.draw(30000) as u32,
        tape.draw(86_400_000) as u32,
        "KDMX",
    );
    // a metadata-only volume (what a real-time start chunk is): status, VCP and other fixed frames,
    // no radial at all, with boundary values in many status halfwords
    let metadata_only = inner_faults && tape.draw(6) == 5;
    let meta_opts = StreamOpts { t31_percent: 0, extreme_halfwords: 6, ..opts.clone() };
    if metadata_only {
        notes.push("metadata-only volume (no type-31 message)".to_string());
    }
    for ri in 0..n {
        let mut s = build_stream(tape, if metadata_only { &meta_opts } else { opts });
        v.messages += s.msgs.len();
        v.radials += s.msgs.iter().filter(|m| m.mtype == 31).count();
        if inner_faults && !s.bytes.is_empty() {
            match tape.weighted(&[3, 2, 2, 2, 1]) {
                0 => {}
                4 => {
                    // a payload that itself looks like a compressed record: "BZ" where a record's
                    // magic would sit, or the whole record compressed twice
                    if tape.draw(2) == 0 && s.bytes.len() >= 6 {
                        s.bytes[4] = b'B';
                        s.bytes[5] = b'Z';
                        notes.push(format!("record {}: payload bytes 4..6 := \"BZ\" before compression", ri));
                    } else {
                        s.bytes = icd::ldm_record(&s.bytes, false);
                        notes.push(format!("record {}: compressed twice", ri));
                    }
                }
                3 => {
                    // field-directed extremes inside an otherwise intact payload
                    let k = 1 + tape.draw(2);
                    for _ in 0..k {
                        if let Some(n) = extreme(tape, &mut s) {
                            notes.push(format!("record {}: {} before compression", ri, n));
                        }
                    }
                }
                1 => {
                    // the uncompressed payload stops inside a message (prefer the last one)
                    let last = s.msgs.last().map(|m| m.off).unwrap_or(0);
                    let t = if tape.draw(2) == 0 { last + tape.draw((s.bytes.len() - last) as u64) as usize } else { tape.draw(s.bytes.len() as u64) as usize };
                    s.bytes.truncate(t);
                    notes.push(format!("record {}: payload cut at {} before compression", ri, t));
                }
                _ => {
                    let k = 1 + tape.draw(3);
                    for _ in 0..k {
                        let d = crate::streamsim::damage(&mut s.bytes, tape);
                        notes.push(format!("record {}: payload {}@{}+{} before compression", ri, d.kind, d.at, d.len));
                    }
                }
            }
        }
        let negative = tape.draw(4) == 3;
        let rec = if tape.draw(6) == 5 {
            // several bzip2 members under one size prefix
            let k = 1 + tape.draw(2) as usize;
            let cuts: Vec<usize> = (0..k).map(|_| tape.draw(s.bytes.len() as u64 + 1) as usize).collect();
            let mut cuts = cuts;
            cuts.sort_unstable();
            notes.push(format!("record {}: {} bzip2 members", ri, k + 1));
            icd::ldm_record_members(&s.bytes, &cuts, negative)
        } else {
            icd::ldm_record(&s.bytes, negative)
        };
        v.records.push((v.bytes.len(), rec.len()));
        v.bytes.extend_from_slice(&rec);
    }
    (v, notes)
}

// ---------------------------------------------------------------------------------------------
// field-directed extremes written at offsets the encoders report (used by C04 directly and by C06
// inside payloads before compression)

pub fn vcp_extreme(tape: &mut Tape, s: &mut Stream) -> Option<String> {
    let idx: Vec<usize> = s.msgs.iter().enumerate().filter(|(_, m)| m.mtype == 5).map(|(i, _)| i).collect();
    if idx.is_empty() {
        return None;
    }
    let mi = idx[tape.draw(idx.len() as u64) as usize];
    let base = s.msgs[mi].off + HEADER;
    let (off, what, v) = match tape.draw(2) {
        0 => (0usize, "message size", [0u16, 5, 10, 11, 65535][tape.draw(5) as usize]),
        _ => (6usize, "cut count", [65535u16, 52, 53, 1000, 0][tape.draw(5) as usize]),
    };
    if base + off + 2 <= s.bytes.len() {
        s.bytes[base + off..base + off + 2].copy_from_slice(&v.to_be_bytes());
    }
    Some(format!("message {} (VCP): {} := {}", mi, what, v))
}

pub fn extreme(tape: &mut Tape, s: &mut Stream) -> Option<String> {
    if tape.draw(3) == 2 {
        if let Some(n) = vcp_extreme(tape, s) {
            return Some(n);
        }
    }
    if !s.msgs.is_empty() && tape.draw(8) == 7 {
        // the variable-length marker together with extreme segment fields, on any message type
        let mi = tape.draw(s.msgs.len() as u64) as usize;
        let base = s.msgs[mi].off;
        let sc = [0u16, 0, 1, 0xFFFF, 9][tape.draw(5) as usize];
        let sn = [0u16, 0, 1, 0xFFFF, 2432, 28][tape.draw(6) as usize];
        if base + 28 <= s.bytes.len() {
            s.bytes[base + 12..base + 14].copy_from_slice(&0xFFFFu16.to_be_bytes());
            s.bytes[base + 24..base + 26].copy_from_slice(&sc.to_be_bytes());
            s.bytes[base + 26..base + 28].copy_from_slice(&sn.to_be_bytes());
        }
        return Some(format!("message {} (type {}): size := 65535 (variable-length marker), segment count := {}, segment number := {}", mi, s.msgs[mi].mtype, sc, sn));
    }
    let idx: Vec<usize> = s.msgs.iter().enumerate().filter(|(_, m)| m.t31.is_some()).map(|(i, _)| i).collect();
    if idx.is_empty() {
        return None;
    }
    let mi = idx[tape.draw(idx.len() as u64) as usize];
    let m = s.msgs[mi].clone();
    let t = m.t31.as_ref().unwrap();
    let base = m.off;
    let b = &mut s.bytes;
    let put16 = |b: &mut Vec<u8>, off: usize, v: u16| {
        if off + 2 <= b.len() {
            b[off..off + 2].copy_from_slice(&v.to_be_bytes());
        }
    };
    let put32 = |b: &mut Vec<u8>, off: usize, v: u32| {
        if off + 4 <= b.len() {
            b[off..off + 4].copy_from_slice(&v.to_be_bytes());
        }
    };
    let nblocks = t.blocks.len();
    let kind = tape.weighted(&[2, 3, 3, 2, 2, 1, 1, 3]);
    Some(match kind {
        0 => {
            let v = [65535u16, 0, 1, 255, 256, 11, 32768][tape.draw(7) as usize];
            put16(b, base + t.off_block_count, v);
            format!("message {}: block count := {}", mi, v)
        }
        1 if nblocks > 0 => {
            let k = tape.draw(nblocks as u64) as usize;
            let v = match tape.draw(7) {
                0 => 0u32,
                1 => 4,
                2 => 31,
                3 => (m.len - HEADER) as u32,
                4 => (m.len - HEADER) as u32 - 1,
                5 => 0xFFFF_FFFF,
                _ => 0x7FFF_FFFF,
            };
            put32(b, base + t.off_pointers + 4 * k, v);
            format!("message {}: pointer {} := {}", mi, k, v)
        }
        2 if nblocks > 1 => {
            // overlapping / duplicated pointers
            let k = tape.draw(nblocks as u64) as usize;
            let j = tape.draw(nblocks as u64) as usize;
            let target = (t.blocks[j].off - HEADER) as u32 + [0u32, 1, 4, 28][tape.draw(4) as usize];
            put32(b, base + t.off_pointers + 4 * k, target);
            format!("message {}: pointer {} := into block {} ({})", mi, k, j, target)
        }
        3 if nblocks > 0 => {
            let k = tape.draw(nblocks as u64) as usize;
            let names: [&[u8; 3]; 7] = [b"XYZ", b"ref", b"\xff\xfe\xfd", b"   ", b"SW\0", b"VOL", b"REF"];
            let n = names[tape.draw(7) as usize];
            let off = base + t.blocks[k].off + 1;
            if off + 3 <= b.len() {
                b[off..off + 3].copy_from_slice(n);
            }
            format!("message {}: block {} name := {:?}", mi, k, String::from_utf8_lossy(n))
        }
        4 => {
            let moments: Vec<&icd::BlockMap> = t.blocks.iter().filter(|x| x.gates_off.is_some()).collect();
            if moments.is_empty() {
                return None;
            }
            let bm = moments[tape.draw(moments.len() as u64) as usize];
            let v = [65535u16, 1841, 32768, 0][tape.draw(4) as usize];
            put16(b, base + bm.gates_off.unwrap(), v);
            format!("message {}: {} gate count := {}", mi, bm.name, v)
        }
        5 => {
            let moments: Vec<&icd::BlockMap> = t.blocks.iter().filter(|x| x.word_off.is_some()).collect();
            if moments.is_empty() {
                return None;
            }
            let bm = moments[tape.draw(moments.len() as u64) as usize];
            let v = [0u8, 255, 7, 9, 32, 64, 1][tape.draw(7) as usize];
            let off = base + bm.word_off.unwrap();
            if off < b.len() {
                b[off] = v;
            }
            format!("message {}: {} word size := {}", mi, bm.name, v)
        }
        6 => {
            // header type code / size field
            let v = tape.draw(256) as u8;
            b[base + 15] = v;
            format!("message {}: type code := {}", mi, v)
        }
        _ => {
            // data-header dates, times and code bytes; declared sizes (lrtup) of the fixed blocks
            match tape.draw(6) {
                0 => {
                    let v = [0u16, 65535, 1][tape.draw(3) as usize];
                    put16(b, base + HEADER + 8, v);
                    format!("message {}: data-header date := {}", mi, v)
                }
                1 => {
                    let v = [u32::MAX, 86_400_000, 86_399_999][tape.draw(3) as usize];
                    put32(b, base + HEADER + 4, v);
                    format!("message {}: data-header time := {}", mi, v)
                }
                2 => {
                    let v = [0u16, 65535][tape.draw(2) as usize];
                    put16(b, base + 18, v);
                    format!("message {}: message-header date := {}", mi, v)
                }
                3 => {
                    let off = [16usize, 20, 21, 28, 29][tape.draw(5) as usize];
                    let v = [0u8, 3, 4, 255, 128][tape.draw(5) as usize];
                    if base + HEADER + off < b.len() {
                        b[base + HEADER + off] = v;
                    }
                    format!("message {}: data-header code byte at {} := {}", mi, off, v)
                }
                _ => {
                    let fixed: Vec<&icd::BlockMap> = t.blocks.iter().filter(|x| x.gates_off.is_none()).collect();
                    if fixed.is_empty() {
                        return None;
                    }
                    let bm = fixed[tape.draw(fixed.len() as u64) as usize];
                    let v = [0u16, 5, 6, 20, 27, 29, 65535][tape.draw(7) as usize];
                    put16(b, base + bm.off + 4, v);
                    format!("message {}: {} declared block size := {}", mi, bm.name, v)
                }
            }
        }
    })
}

