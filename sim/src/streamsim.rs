//! `streamsim`: a simulated storage device behind `Read + Seek`. It serves a byte image the way a
//! real device, pipe or socket may: in short pieces, with `Interrupted` results, with an end of
//! file at an arbitrary byte (the crash analogue for a reader), with hard I/O errors and failing
//! seeks. Stored-byte damage is applied to the image beforehand (see `damage`). Every operation is
//! logged with a sequence number; the log is the schedule-and-fault trace of a run. The reader
//! also enforces the run's operation budget (termination) and watches the counting allocator
//! (memory bound), so a runaway decoder is reported instead of taking the machine down.
//!
//! Seek semantics are those of `std::io::Cursor`, which is what the library itself wraps around
//! record data: seeking past the end is allowed (reads then return 0), seeking before 0 is an error.

use crate::alloc;
use crate::ctx::Ctx;
use crate::rng::Rng;
use crate::tape::Tape;
use std::io::{self, ErrorKind, Read, Seek, SeekFrom};

#[derive(Clone, Debug, Default)]
pub struct ReaderPlan {
    /// 0 = serve whatever is asked; otherwise each read returns 1..=max_chunk bytes
    pub max_chunk: usize,
    /// probability (per mille) that a read returns `Interrupted` instead of data
    pub eintr_permille: u32,
    /// at most this many interruptions per run (retry loops must end)
    pub eintr_budget: u32,
    /// the device reports end of file at this byte although the image is longer
    pub eof_at: Option<usize>,
    /// the n-th read (0-based) fails with a hard error
    pub hard_error_at_read: Option<u64>,
    /// the n-th seek (0-based) fails
    pub seek_error_at: Option<u64>,
}

impl ReaderPlan {
    pub fn clean() -> Self {
        ReaderPlan::default()
    }

    /// Short reads and interruptions only (must not change any result).
    pub fn dribble(tape: &mut Tape) -> Self {
        ReaderPlan {
            max_chunk: match tape.weighted(&[2, 2, 2, 1]) {
                0 => 1,
                1 => 1 + tape.draw(7) as usize,
                2 => 1 + tape.draw(64) as usize,
                _ => 1 + tape.draw(4096) as usize,
            },
            eintr_permille: [0, 50, 300][tape.draw(3) as usize],
            eintr_budget: 64,
            ..Default::default()
        }
    }
}

#[derive(Clone, Debug, PartialEq, Eq)]
pub enum Trip {
    Ops(u64),
    Memory(usize),
}

pub struct SimReader<'a> {
    image: &'a [u8],
    /// logical offset of the image's first byte (the image may sit far into a larger stream)
    base: u64,
    pos: u64,
    plan: ReaderPlan,
    rng: Rng,
    pub reads: u64,
    pub seeks: u64,
    pub ops: u64,
    pub eintr: u32,
    pub short_reads: u64,
    pub eof_hits: u64,
    pub hard_errors: u64,
    pub seek_errors: u64,
    pub max_pos: u64,
    pub bytes_served: u64,
    op_limit: u64,
    mem_base: usize,
    mem_limit: usize,
    pub tripped: Option<Trip>,
    trace_on: bool,
    pub trace: Vec<String>,
    pub fp: crate::rng::Fp,
}

impl<'a> SimReader<'a> {
    pub fn new(image: &'a [u8], plan: ReaderPlan, seed: u64, trace_on: bool) -> Self {
        let len = image.len();
        SimReader {
            image,
            base: 0,
            pos: 0,
            plan,
            rng: Rng::new(seed),
            reads: 0,
            seeks: 0,
            ops: 0,
            eintr: 0,
            short_reads: 0,
            eof_hits: 0,
            hard_errors: 0,
            seek_errors: 0,
            max_pos: 0,
            bytes_served: 0,
            op_limit: 64 * len as u64 + 100_000,
            mem_base: alloc::live(),
            mem_limit: usize::MAX,
            tripped: None,
            trace_on,
            trace: Vec::new(),
            fp: Default::default(),
        }
    }

    /// Sets the allocation ceiling (bytes above the live total at construction).
    pub fn with_memory_limit(mut self, bytes: usize) -> Self {
        self.mem_limit = bytes;
        self.mem_base = alloc::live();
        self
    }

    /// Places the image at a (possibly huge) logical offset; the reader starts there.
    pub fn at_offset(mut self, base: u64) -> Self {
        self.base = base;
        self.pos = base;
        self
    }

    pub fn with_op_limit(mut self, ops: u64) -> Self {
        self.op_limit = ops;
        self
    }

    pub fn position(&self) -> u64 {
        self.pos
    }

    fn effective_len(&self) -> usize {
        match self.plan.eof_at {
            Some(e) => e.min(self.image.len()),
            None => self.image.len(),
        }
    }

    /// Position relative to the image start (positions before the base read as zero bytes).
    pub fn position_in_image(&self) -> i128 {
        self.pos as i128 - self.base as i128
    }

    fn budget(&mut self) -> io::Result<()> {
        self.ops += 1;
        if self.tripped.is_none() {
            if self.ops > self.op_limit {
                self.tripped = Some(Trip::Ops(self.ops));
            } else {
                let live = alloc::live();
                if live > self.mem_base && live - self.mem_base > self.mem_limit {
                    self.tripped = Some(Trip::Memory(live - self.mem_base));
                }
            }
        }
        if self.tripped.is_some() {
            return Err(io::Error::new(ErrorKind::Other, "simulator: run budget exceeded"));
        }
        Ok(())
    }

    fn note(&mut self, kind: u64, a: u64, b: u64, text: impl FnOnce() -> String) {
        self.fp.u(kind);
        self.fp.u(a);
        self.fp.u(b);
        if self.trace_on && self.trace.len() < 4000 {
            let t = text();
            self.trace.push(format!("op{} {}", self.ops, t));
        }
    }

    /// Copies counters into the run context.
    pub fn account(&self, ctx: &mut Ctx) {
        ctx.add("reader_ops", self.ops);
        ctx.add("fault.short_read", self.short_reads);
        ctx.add("fault.eintr", self.eintr as u64);
        ctx.add("fault.eof_cut", self.eof_hits);
        ctx.add("fault.hard_io_error", self.hard_errors);
        ctx.add("fault.seek_error", self.seek_errors);
        ctx.fp.u(self.fp.0);
        if ctx.trace_on {
            for t in &self.trace {
                if ctx.trace.len() < 20_000 {
                    ctx.trace.push(t.clone());
                }
            }
        }
    }
}

impl Read for SimReader<'_> {
    fn read(&mut self, buf: &mut [u8]) -> io::Result<usize> {
        self.budget()?;
        let idx = self.reads;
        self.reads += 1;
        if self.plan.hard_error_at_read == Some(idx) {
            self.hard_errors += 1;
            self.note(3, idx, 0, || format!("read({}) -> hard I/O error (injected)", buf.len()));
            return Err(io::Error::new(ErrorKind::Other, "simulated device error"));
        }
        if buf.is_empty() {
            return Ok(0);
        }
        if self.plan.eintr_permille > 0
            && self.eintr < self.plan.eintr_budget
            && self.rng.below(1000) < self.plan.eintr_permille as u64
        {
            self.eintr += 1;
            self.note(2, idx, 0, || format!("read({}) -> Interrupted (injected)", buf.len()));
            return Err(io::Error::new(ErrorKind::Interrupted, "simulated EINTR"));
        }
        if self.pos < self.base {
            // before the image: an unrelated part of the larger stream (zeros)
            let n = buf.len().min((self.base - self.pos) as usize);
            for b in &mut buf[..n] {
                *b = 0;
            }
            self.pos += n as u64;
            return Ok(n);
        }
        let len = self.base + self.effective_len() as u64;
        if self.pos >= len {
            if self.plan.eof_at.is_some() && ((self.pos - self.base) as usize) < self.image.len() {
                self.eof_hits += 1;
            }
            let pos = self.pos;
            self.note(1, pos, 0, || format!("read({}) @{} -> 0 (end of file)", buf.len(), pos));
            return Ok(0);
        }
        let avail = (len - self.pos) as usize;
        let mut n = buf.len().min(avail);
        if self.plan.max_chunk > 0 {
            let cap = 1 + self.rng.below(self.plan.max_chunk as u64) as usize;
            if cap < n {
                n = cap;
                self.short_reads += 1;
            }
        }
        if n < buf.len() && self.plan.eof_at.is_some() && n == avail {
            self.eof_hits += 1;
        }
        let p = (self.pos - self.base) as usize;
        buf[..n].copy_from_slice(&self.image[p..p + n]);
        self.pos += n as u64;
        self.bytes_served += n as u64;
        self.max_pos = self.max_pos.max(self.pos);
        let want = buf.len();
        self.note(0, p as u64, n as u64, || format!("read({}) @{} -> {}", want, p, n));
        Ok(n)
    }
}

impl Seek for SimReader<'_> {
    fn seek(&mut self, pos: SeekFrom) -> io::Result<u64> {
        self.budget()?;
        let idx = self.seeks;
        self.seeks += 1;
        if self.plan.seek_error_at == Some(idx) {
            self.seek_errors += 1;
            self.note(5, idx, 0, || format!("seek({:?}) -> error (injected)", pos));
            return Err(io::Error::new(ErrorKind::Other, "simulated seek failure"));
        }
        let (base, offset): (u64, i64) = match pos {
            SeekFrom::Start(n) => {
                self.pos = n;
                self.note(4, n, 0, || format!("seek(Start({})) -> {}", n, n));
                return Ok(n);
            }
            SeekFrom::End(n) => (self.base + self.effective_len() as u64, n),
            SeekFrom::Current(n) => (self.pos, n),
        };
        match base.checked_add_signed(offset) {
            Some(n) => {
                self.pos = n;
                self.note(4, n, 1, || format!("seek({:?}) -> {}", pos, n));
                Ok(n)
            }
            None => {
                self.note(4, 0, 2, || format!("seek({:?}) -> invalid", pos));
                Err(io::Error::new(
                    ErrorKind::InvalidInput,
                    "invalid seek to a negative or overflowing position",
                ))
            }
        }
    }
}

// ---------------------------------------------------------------------------------------------
// stored-byte damage

#[derive(Clone, Debug)]
pub struct DamageNote {
    pub kind: &'static str,
    pub at: usize,
    pub len: usize,
}

/// Applies one randomly drawn piece of damage to the image. Returns what was done.
pub fn damage(image: &mut Vec<u8>, tape: &mut Tape) -> DamageNote {
    let n = image.len();
    if n == 0 {
        image.push(tape.draw(256) as u8);
        return DamageNote { kind: "insert", at: 0, len: 1 };
    }
    let at = tape.draw(n as u64) as usize;
    match tape.weighted(&[4, 3, 2, 2, 2, 2, 1]) {
        0 => {
            let bit = tape.draw(8) as u8;
            image[at] ^= 1 << bit;
            DamageNote { kind: "bit_flip", at, len: 1 }
        }
        1 => {
            image[at] = [0u8, 0xFF, 0x7F, 0x80, 1][tape.draw(5) as usize];
            DamageNote { kind: "byte_overwrite", at, len: 1 }
        }
        2 => {
            let len = (1 + tape.draw(64) as usize).min(n - at);
            let fill = if tape.draw(2) == 0 { 0u8 } else { 0xFF };
            for b in &mut image[at..at + len] {
                *b = fill;
            }
            DamageNote { kind: if fill == 0 { "zero_run" } else { "ff_run" }, at, len }
        }
        3 => {
            let len = (1 + tape.draw(64) as usize).min(n - at);
            let noise = tape.bytes(len);
            image[at..at + len].copy_from_slice(&noise);
            DamageNote { kind: "garbage_run", at, len }
        }
        4 => {
            let len = (1 + tape.draw(64) as usize).min(n - at);
            image.drain(at..at + len);
            DamageNote { kind: "span_removed", at, len }
        }
        5 => {
            let len = (1 + tape.draw(64) as usize).min(n - at);
            let dup: Vec<u8> = image[at..at + len].to_vec();
            let mut tail = image.split_off(at);
            image.extend_from_slice(&dup);
            image.append(&mut tail);
            DamageNote { kind: "span_duplicated", at, len }
        }
        _ => {
            image.truncate(at);
            DamageNote { kind: "truncated", at, len: n - at }
        }
    }
}
