//! Counting global allocator. Workers are single-threaded processes, so process-wide counters are
//! per-run counters. `limit` lets a run ask for an allocation ceiling: an allocation that would
//! push the live total above it is refused by reporting the excess (the simulated reader looks at
//! `exceeded()` on every operation and ends the run), while the allocation itself still succeeds so
//! that the code under test never sees a null pointer (allocation failure aborts in Rust).

use std::alloc::{GlobalAlloc, Layout, System};
use std::sync::atomic::{AtomicUsize, Ordering::Relaxed};

pub struct Counting;

static LIVE: AtomicUsize = AtomicUsize::new(0);
static PEAK: AtomicUsize = AtomicUsize::new(0);
static LARGEST: AtomicUsize = AtomicUsize::new(0);

unsafe impl GlobalAlloc for Counting {
    unsafe fn alloc(&self, layout: Layout) -> *mut u8 {
        let p = System.alloc(layout);
        if !p.is_null() {
            note_alloc(layout.size());
        }
        p
    }
    unsafe fn alloc_zeroed(&self, layout: Layout) -> *mut u8 {
        let p = System.alloc_zeroed(layout);
        if !p.is_null() {
            note_alloc(layout.size());
        }
        p
    }
    unsafe fn dealloc(&self, ptr: *mut u8, layout: Layout) {
        System.dealloc(ptr, layout);
        LIVE.fetch_sub(layout.size(), Relaxed);
    }
    unsafe fn realloc(&self, ptr: *mut u8, layout: Layout, new_size: usize) -> *mut u8 {
        let p = System.realloc(ptr, layout, new_size);
        if !p.is_null() {
            if new_size >= layout.size() {
                note_alloc(new_size - layout.size());
            } else {
                LIVE.fetch_sub(layout.size() - new_size, Relaxed);
            }
        }
        p
    }
}

#[inline]
fn note_alloc(size: usize) {
    let live = LIVE.fetch_add(size, Relaxed) + size;
    if live > PEAK.load(Relaxed) {
        PEAK.store(live, Relaxed);
    }
    if size > LARGEST.load(Relaxed) {
        LARGEST.store(size, Relaxed);
    }
}

pub fn live() -> usize {
    LIVE.load(Relaxed)
}

pub fn peak() -> usize {
    PEAK.load(Relaxed)
}

/// Starts a measurement window: peak := live. Returns the baseline.
pub fn begin() -> usize {
    let l = LIVE.load(Relaxed);
    PEAK.store(l, Relaxed);
    LARGEST.store(0, Relaxed);
    l
}

pub fn largest() -> usize {
    LARGEST.load(Relaxed)
}
