//! The choice tape: every random decision of a run is one `draw`. In search mode the tape is filled
//! from the PRNG and recorded; in replay mode the recorded values are read back (reduced modulo
//! the bound asked for) and draws past the end return 0. Generators are written so that 0 is the
//! simplest choice, which makes the tape the single object to minimise.

use crate::rng::Rng;

pub struct Tape {
    rng: Option<Rng>,
    data: Vec<u64>,
    pos: usize,
}

impl Tape {
    pub fn record(seed: u64) -> Self {
        Tape {
            rng: Some(Rng::new(seed)),
            data: Vec::new(),
            pos: 0,
        }
    }

    pub fn replay(data: Vec<u64>) -> Self {
        Tape {
            rng: None,
            data,
            pos: 0,
        }
    }

    /// Values drawn so far (record mode) or consumed so far (replay mode).
    pub fn used(&self) -> Vec<u64> {
        match self.rng {
            Some(_) => self.data.clone(),
            None => self.data[..self.pos.min(self.data.len())].to_vec(),
        }
    }

    pub fn draws(&self) -> usize {
        self.pos
    }

    /// A value in `0..bound` (0 when `bound <= 1`).
    pub fn draw(&mut self, bound: u64) -> u64 {
        let v = match &mut self.rng {
            Some(rng) => {
                let v = rng.below(bound);
                self.data.push(v);
                v
            }
            None => {
                let raw = self.data.get(self.pos).copied().unwrap_or(0);
                if bound <= 1 {
                    0
                } else {
                    raw % bound
                }
            }
        };
        self.pos += 1;
        v
    }

    /// A full 64-bit value (sub-seed for bulk data; keeps the tape short).
    pub fn seed(&mut self) -> u64 {
        let v = match &mut self.rng {
            Some(rng) => {
                let v = rng.next_u64();
                self.data.push(v);
                v
            }
            None => self.data.get(self.pos).copied().unwrap_or(0),
        };
        self.pos += 1;
        v
    }

    /// Inclusive range, lowest value is the simplest.
    pub fn range(&mut self, lo: u64, hi: u64) -> u64 {
        debug_assert!(hi >= lo);
        lo + self.draw(hi - lo + 1)
    }

    /// True with probability num/den; false is the simplest outcome.
    pub fn chance(&mut self, num: u64, den: u64) -> bool {
        if num == 0 {
            // still consume a draw so that enabling/disabling a fault kind does not shift the tape
            self.draw(den);
            return false;
        }
        let v = self.draw(den);
        // true for the *highest* values so that 0 stays "no"
        v >= den - num.min(den)
    }

    /// Index chosen by weight; index 0 is the simplest.
    pub fn weighted(&mut self, weights: &[u64]) -> usize {
        let total: u64 = weights.iter().sum();
        let mut v = self.draw(total.max(1));
        for (i, w) in weights.iter().enumerate() {
            if v < *w {
                return i;
            }
            v -= w;
        }
        0
    }

    pub fn pick<'a, T>(&mut self, items: &'a [T]) -> &'a T {
        let i = self.draw(items.len() as u64) as usize;
        &items[i]
    }

    /// Bulk pseudo-random bytes from one tape entry.
    pub fn bytes(&mut self, n: usize) -> Vec<u8> {
        let mut r = Rng::new(self.seed());
        let mut v = vec![0u8; n];
        r.fill(&mut v);
        v
    }

    /// A local PRNG seeded from one tape entry.
    pub fn fork(&mut self) -> Rng {
        Rng::new(self.seed())
    }
}
