//! C04 - decode totality: damaged, cut, crafted and random images served through the simulated
//! device to every decoding entry point; panics, operation budget and the counting allocator are
//! observed from outside.

use crate::alloc;
use crate::ctx::{Ctx, Params, Tier};
use crate::driver::{Check, Section};
use crate::icd::{self, HEADER};
use crate::rng::Rng;
use crate::streamsim::{damage, ReaderPlan, SimReader, Trip};
use crate::tape::Tape;
use crate::workload::{build_stream, extreme, push_message, StreamOpts};
use nexrad_decode::messages::clutter_filter_map::decode_clutter_filter_map;
use nexrad_decode::messages::digital_radar_data::decode_digital_radar_data;
use nexrad_decode::messages::rda_status_data::decode_rda_status_message;
use nexrad_decode::messages::volume_coverage_pattern::decode_volume_coverage_pattern;
use nexrad_decode::messages::{
    decode_message_contents, decode_message_header, decode_messages, Message, MessageContents, MessageType,
};
use serde_json::json;

pub struct C04;

const MEM_CONST: usize = 8 * 1024 * 1024;
const MEM_FACTOR: usize = 64;

fn mem_limit(len: usize) -> usize {
    MEM_CONST + MEM_FACTOR * len
}

#[derive(Clone, Copy, PartialEq, Eq, Debug)]
enum Entry {
    Messages,
    Header,
    Contents(u8),
    Radar,
    Status,
    Vcp,
    Clutter,
}

impl Entry {
    fn name(&self) -> String {
        match self {
            Entry::Messages => "decode_messages".into(),
            Entry::Header => "decode_message_header".into(),
            Entry::Contents(t) => format!("decode_message_contents(type {})", t),
            Entry::Radar => "decode_digital_radar_data".into(),
            Entry::Status => "decode_rda_status_message".into(),
            Entry::Vcp => "decode_volume_coverage_pattern".into(),
            Entry::Clutter => "decode_clutter_filter_map".into(),
        }
    }
    fn short(&self) -> &'static str {
        match self {
            Entry::Messages => "messages",
            Entry::Header => "header",
            Entry::Contents(_) => "contents",
            Entry::Radar => "radar",
            Entry::Status => "status",
            Entry::Vcp => "vcp",
            Entry::Clutter => "clutter",
        }
    }
}

fn message_type_for(code: u8) -> Option<MessageType> {
    let mut h = vec![0u8; HEADER];
    h[12] = 0;
    h[13] = 4;
    h[15] = code;
    decode_message_header(&mut h.as_slice()).ok().map(|h| h.message_type())
}

/// Converts whatever decoded into radials (both conversions) - part of the property.
fn convert_radials(ctx: &mut Ctx, msgs: Vec<Message>) {
    for m in msgs {
        if let MessageContents::DigitalRadarData(d) = m.into_contents() {
            let a = d.radial();
            let b = (*d).into_radial();
            ctx.count("radial_conversions");
            if a.is_ok() != b.is_ok() {
                // not C04's business (C07), but cheap to notice
                ctx.count("radial_conversions_disagree");
            }
            drop(a);
            drop(b);
        }
    }
}

/// Runs one entry point over the image through the simulated device and applies the oracle.
/// Returns (decoded ok, messages consumed estimate).
fn drive(ctx: &mut Ctx, image: &[u8], plan: ReaderPlan, seed: u64, entry: Entry, what: &str) -> bool {
    ctx.evaluations += 1;
    let limit = mem_limit(image.len());
    let base = alloc::begin();
    let mut rd = SimReader::new(image, plan, seed, ctx.trace_on).with_memory_limit(limit);
    let mut ok = false;
    // sometimes the reader handed over is already positioned at or beyond the end of the data
    // (where an earlier failed call may have left it): that is an empty stream, not a crash
    if seed % 29 == 7 && matches!(entry, Entry::Messages) {
        use std::io::{Seek, SeekFrom};
        let _ = rd.seek(SeekFrom::Start(image.len() as u64 + seed % 5000));
        ctx.count("reader_positioned_beyond_end");
    }
    match entry {
        Entry::Messages => {
            if let Ok(v) = decode_messages(&mut rd) {
                ok = true;
                if !v.is_empty() {
                    ctx.count("decoded_some_messages");
                }
                convert_radials(ctx, v);
            }
        }
        Entry::Header => {
            ok = decode_message_header(&mut rd).is_ok();
        }
        Entry::Contents(code) => {
            if let Some(t) = message_type_for(code) {
                if let Ok(c) = decode_message_contents(&mut rd, t) {
                    ok = true;
                    if let MessageContents::DigitalRadarData(d) = c {
                        let _ = d.radial();
                        let _ = (*d).into_radial();
                        ctx.count("radial_conversions");
                    }
                }
            }
        }
        Entry::Radar => {
            if let Ok(d) = decode_digital_radar_data(&mut rd) {
                ok = true;
                let _ = d.radial();
                let _ = d.into_radial();
                ctx.count("radial_conversions");
            }
        }
        Entry::Status => {
            ok = decode_rda_status_message(&mut rd).is_ok();
        }
        Entry::Vcp => {
            ok = decode_volume_coverage_pattern(&mut rd).is_ok();
        }
        Entry::Clutter => {
            ok = decode_clutter_filter_map(&mut rd).is_ok();
        }
    }
    let peak = alloc::peak().saturating_sub(base);
    rd.account(ctx);
    if ok {
        ctx.count("returned_value");
    } else {
        ctx.count("returned_error");
    }
    match &rd.tripped {
        Some(Trip::Ops(n)) => {
            ctx.violate(
                "terminates",
                format!("{}:{}", entry.short(), what),
                format!("{} did not finish within the operation budget ({} device operations on {} bytes) [{}]", entry.name(), n, image.len(), what),
            );
        }
        Some(Trip::Memory(m)) => {
            ctx.violate(
                "memory-linear",
                format!("{}:{}", entry.short(), what),
                format!("{} held {} bytes live while reading a {}-byte image (bound {} = 8 MiB + 64 x len) [{}]", entry.name(), m, image.len(), limit, what),
            );
        }
        None => {
            if peak > limit {
                ctx.violate(
                    "memory-linear",
                    format!("{}:{}", entry.short(), what),
                    format!("{} peaked at {} bytes on a {}-byte image (bound {} = 8 MiB + 64 x len) [{}]", entry.name(), peak, image.len(), limit, what),
                );
            }
        }
    }
    if peak > ctx.counters.get("max_peak_bytes").copied().unwrap_or(0) as usize {
        ctx.counters.insert("max_peak_bytes", peak as u64);
    }
    ok
}

fn reader_faults(tape: &mut Tape, image_len: usize) -> ReaderPlan {
    let mut plan = match tape.weighted(&[3, 3]) {
        0 => ReaderPlan::clean(),
        _ => ReaderPlan::dribble(tape),
    };
    match tape.weighted(&[5, 2, 2, 2]) {
        0 => {}
        1 => plan.hard_error_at_read = Some(tape.draw(400)),
        2 => plan.seek_error_at = Some(tape.draw(40)),
        _ => {
            if image_len > 0 {
                plan.eof_at = Some(tape.draw(image_len as u64) as usize)
            }
        }
    }
    plan
}

/// Field-directed extremes written at known offsets of a type-31 message. Returns a description.
/// Crafted amplification attempts: many pointers onto one block, many tiny messages, blocks that
/// overlap - inputs whose decoded size might grow faster than the input.
fn amplification(tape: &mut Tape, r: &mut Rng) -> (Vec<u8>, String) {
    let mode = tape.weighted(&[2, 2, 2, 3]);
    match mode {
        0 => {
            // one message, n pointers all onto one moment block
            let n = [16usize, 256, 4096, 20000, 65535][tape.draw(5) as usize];
            // count x block size is what a decoder that keeps every referenced block alive would hold
            let gates = if tape.draw(3) == 0 { tape.draw(64) as usize } else { 200 + tape.draw(1641) as usize };
            let body_len = 32 + 4 * n + 28 + gates;
            let mut body = vec![0u8; body_len];
            r.fill(&mut body);
            body[0..4].copy_from_slice(b"KDMX");
            body[30..32].copy_from_slice(&(n as u16).to_be_bytes());
            let blk = 32 + 4 * n;
            for k in 0..n {
                body[32 + 4 * k..36 + 4 * k].copy_from_slice(&(blk as u32).to_be_bytes());
            }
            body[blk] = b'D';
            body[blk + 1..blk + 4].copy_from_slice(b"REF");
            body[blk + 8..blk + 10].copy_from_slice(&(gates as u16).to_be_bytes());
            body[blk + 19] = 8;
            let mut msg = icd::random_header(r, 31, 1, body_len).encode();
            msg.extend_from_slice(&body);
            (msg, format!("one message, {} pointers onto one {}-gate block", n, gates))
        }
        1 => {
            // k messages; each header-only (no blocks) or with all 7 moments sharing one region
            let k = 1 + tape.draw(400) as usize;
            let gates = tape.draw(1841) as usize;
            let mut out = Vec::new();
            for i in 0..k {
                let n = 7usize;
                let body_len = 32 + 4 * n + 28 * n + gates;
                let mut body = vec![0u8; body_len];
                r.fill(&mut body);
                body[0..4].copy_from_slice(b"KDMX");
                body[30..32].copy_from_slice(&(n as u16).to_be_bytes());
                // seven block headers back to back, all claiming `gates` gates: their data regions
                // overlap each other and the following headers
                for (j, name) in icd::MOMENTS.iter().enumerate() {
                    let blk = 32 + 4 * n + 28 * j;
                    body[32 + 4 * j..36 + 4 * j].copy_from_slice(&(blk as u32).to_be_bytes());
                    body[blk] = b'D';
                    body[blk + 1..blk + 4].copy_from_slice(name.as_bytes());
                    let fit = (body_len - blk - 28).min(gates);
                    body[blk + 8..blk + 10].copy_from_slice(&(fit as u16).to_be_bytes());
                    body[blk + 19] = 8;
                }
                let mut msg = icd::random_header(r, 31, i as u16, body_len).encode();
                msg.extend_from_slice(&body);
                out.extend_from_slice(&msg);
            }
            (out, format!("{} messages, 7 overlapping moment blocks of up to {} gates each", k, gates))
        }
        3 => {
            // a chain of small messages, each holding a huge moment block whose gate data covers
            // the messages that follow, plus a small block nested inside that gate data: a decoder
            // that leaves the reader anywhere but after the furthest block re-enters the covered
            // bytes and retains one huge buffer per 108 bytes of input
            let n = 2 + tape.draw(300) as usize;
            let gates = [65535usize, 40000, 1840, 20000][tape.draw(4) as usize];
            let word = [255u8, 16, 8, 64][tape.draw(4) as usize];
            let small_first = tape.draw(2) == 1;
            let small_name: &[u8; 3] = [b"ELV", b"RAD", b"VOL"][tape.draw(3) as usize];
            let small_len = match small_name {
                b"ELV" => 12,
                b"RAD" => 28,
                _ => 52,
            };
            let data_len = gates * (word as usize / 8);
            let msg_len = 28 + 32 + 8 + 28 + small_len;
            let mut out = Vec::with_capacity(n * msg_len + data_len);
            for i in 0..n {
                let mut body = vec![0u8; 32 + 8 + 28 + small_len];
                r.fill(&mut body);
                body[0..4].copy_from_slice(b"KDMX");
                body[30..32].copy_from_slice(&2u16.to_be_bytes());
                let (p_big, p_small) = (40u32, 68u32);
                let (first, second) = if small_first { (p_small, p_big) } else { (p_big, p_small) };
                body[32..36].copy_from_slice(&first.to_be_bytes());
                body[36..40].copy_from_slice(&second.to_be_bytes());
                body[40] = b'D';
                body[41..44].copy_from_slice(b"REF");
                body[48..50].copy_from_slice(&(gates as u16).to_be_bytes());
                body[59] = word;
                body[68] = b'R';
                body[69..72].copy_from_slice(small_name);
                let mut msg = icd::random_header(r, 31, i as u16, body.len()).encode();
                msg.extend_from_slice(&body);
                out.extend_from_slice(&msg);
            }
            let mut filler = vec![0u8; data_len];
            r.fill(&mut filler);
            out.extend_from_slice(&filler);
            (out, format!("chain of {} messages of {} bytes, each with a {}-byte moment block covering its successors and a nested {} block (small pointer first: {})", n, msg_len, data_len, String::from_utf8_lossy(small_name), small_first))
        }
        _ => {
            // many minimal messages (header + 32-byte data header, zero blocks)
            // up to and beyond 65,536 messages in one call (16-bit tallies)
            let k = match tape.weighted(&[6, 1, 1]) {
                0 => 1 + tape.draw(20000) as usize,
                1 => 65_536 + tape.draw(3) as usize,
                _ => 65_530 + tape.draw(5000) as usize,
            };
            let mut out = Vec::with_capacity(k * 60);
            for i in 0..k {
                let mut body = vec![0u8; 32];
                r.fill(&mut body);
                body[30] = 0;
                body[31] = 0;
                let mut msg = icd::random_header(r, 31, i as u16, 32).encode();
                msg.extend_from_slice(&body);
                out.extend_from_slice(&msg);
            }
            (out, format!("{} minimal 60-byte messages", k))
        }
    }
}

impl Check for C04 {
    fn id(&self) -> &'static str {
        "C04"
    }
    fn level(&self) -> &'static str {
        "fault_enumeration"
    }
    fn engine(&self) -> &'static str {
        "streamsim"
    }
    fn plan(&self, tier: Tier) -> Vec<Section> {
        match tier {
            Tier::Quick => vec![
                Section { name: "damaged-streams", runs: 200_000 },
                Section { name: "field-extremes", runs: 200_000 },
                Section { name: "random-bytes-all-entry-points", runs: 120_000 },
                Section { name: "every-prefix-with-reader-faults", runs: 3_000 },
                Section { name: "amplification-attempts", runs: 1_200 },
                Section { name: "single-decoders-damaged", runs: 100_000 },
            ],
            Tier::Thorough => vec![
                Section { name: "damaged-streams", runs: 12_000_000 },
                Section { name: "field-extremes", runs: 12_000_000 },
                Section { name: "random-bytes-all-entry-points", runs: 8_000_000 },
                Section { name: "every-prefix-with-reader-faults", runs: 150_000 },
                Section { name: "amplification-attempts", runs: 60_000 },
                Section { name: "single-decoders-damaged", runs: 6_000_000 },
            ],
        }
    }
    fn rule(&self) -> &'static str {
        "a case is a byte image served by the simulated device to one decoding entry point: valid streams from the reference encoders with 1..4 pieces of stored-byte damage (bit flip, byte overwrite, zero/0xFF/garbage run, span removed or duplicated, truncation); field-directed extremes written at known offsets (block count 65535/0, pointers 0/backwards/overlapping/past the end/2^32-1, unknown or non-UTF-8 block names, gates 65535, word size 0/255, type code changes); uniformly random images for every entry point and every type code; every prefix of small streams under short reads, EINTR, hard I/O errors and failing seeks; crafted amplification attempts; each type-31 message that decodes is converted with radial() and into_radial(). Oracle: no panic, device-operation budget 64*len+100000 not exceeded, live/peak heap <= 8 MiB + 64*len. evaluations = decode calls. Non-trivial = the device served at least one complete message header+body before the call returned and a fault was present; distinct = hash of (entry point, image digest, fault plan)"
    }
    fn assumptions(&self) -> Vec<&'static str> {
        vec![
            "the memory bound is checked as 8 MiB + 64 x input length on the process heap (counting global allocator); stack use is not measured",
            "termination is decided by a device-operation budget plus a wall-clock watchdog in the parent for loops that never touch the device",
            "the code under test is compiled with overflow checks and debug assertions on, so an arithmetic overflow counts as a panic",
            "Debug formatting of decoded messages is not part of the property and is not exercised",
        ]
    }
    fn components(&self) -> serde_json::Value {
        json!({"real": ["decode_messages", "decode_message_header", "decode_message_contents (all 256 type codes)", "decode_digital_radar_data", "decode_rda_status_message", "decode_volume_coverage_pattern", "decode_clutter_filter_map", "digital_radar_data::Message::{radial, into_radial}", "nexrad_model::data::Radial::new"],
               "stub": ["the storage device behind Read+Seek (SimReader)"]})
    }
    fn required_probes(&self, _tier: Tier) -> Vec<&'static str> {
        vec!["returned_value", "returned_error", "radial_conversions", "reader_positioned_beyond_end", "fault.hard_io_error", "fault.seek_error", "fault.eintr", "fault.eof_cut", "extreme_applied", "unknown_block_name_reached"]
    }
    fn budget_s(&self, tier: Tier) -> u64 {
        match tier {
            Tier::Quick => 100,
            Tier::Thorough => 1500,
        }
    }

    fn run(&self, p: &Params, tape: &mut Tape, ctx: &mut Ctx) {
        icd::ALLOW_NON_FINITE.with(|a| a.set(true));
        let opts = StreamOpts { max_msgs: 12, permute_pointers: true, gaps: true, max_gates: 1840, t31_percent: 70, extreme_halfwords: 0 };
        match p.section {
            0 => {
                let mut s = build_stream(tape, &opts);
                let first_len = s.msgs.first().map(|m| m.len).unwrap_or(0);
                let k = 1 + tape.draw(4);
                let mut notes = Vec::new();
                for _ in 0..k {
                    let d = damage(&mut s.bytes, tape);
                    ctx.count(match d.kind {
                        "bit_flip" => "fault.bit_flip",
                        "byte_overwrite" => "fault.byte_overwrite",
                        "zero_run" => "fault.zero_run",
                        "ff_run" => "fault.ff_run",
                        "garbage_run" => "fault.garbage_run",
                        "span_removed" => "fault.span_removed",
                        "span_duplicated" => "fault.span_duplicated",
                        "truncated" => "fault.truncated",
                        _ => "fault.insert",
                    });
                    notes.push(format!("{}@{}+{}", d.kind, d.at, d.len));
                }
                let plan = reader_faults(tape, s.bytes.len());
                let seed = tape.seed();
                ctx.ev("case", &[s.bytes.len() as u64, k], || format!("damage {:?} device {:?}", notes, plan));
                ctx.class.b(&s.bytes);
                ctx.class.u(plan.max_chunk as u64);
                let before = ctx.counters.get("decoded_some_messages").copied().unwrap_or(0);
                drive(ctx, &s.bytes, plan.clone(), seed, Entry::Messages, "damaged-stream");
                let after = ctx.counters.get("decoded_some_messages").copied().unwrap_or(0);
                ctx.nontrivial = after > before || first_len > 0;
                if ctx.want_sample && ctx.nontrivial {
                    ctx.sample = Some(json!({"entry": "decode_messages", "image_bytes": s.bytes.len(), "messages_encoded": s.msgs.len(), "damage": notes, "device": format!("{:?}", plan)}));
                }
            }
            1 => {
                let mut s = build_stream(tape, &StreamOpts { t31_percent: 80, ..opts.clone() });
                if s.msgs.iter().all(|m| m.t31.is_none()) {
                    let mut r = tape.fork();
                    push_message(&mut s, tape, &mut r, 31, 7, &opts);
                }
                let k = 1 + tape.draw(3);
                let mut notes = Vec::new();
                for _ in 0..k {
                    if let Some(n) = extreme(tape, &mut s) {
                        if n.contains("name :=") {
                            ctx.count("unknown_block_name_reached");
                        }
                        notes.push(n);
                        ctx.count("extreme_applied");
                    }
                }
                let plan = if tape.draw(3) == 2 { ReaderPlan::dribble(tape) } else { ReaderPlan::clean() };
                let seed = tape.seed();
                ctx.ev("case", &[s.bytes.len() as u64, k], || format!("extremes {:?}", notes));
                ctx.class.b(&s.bytes);
                ctx.nontrivial = !notes.is_empty();
                drive(ctx, &s.bytes, plan, seed, Entry::Messages, "field-extreme");
                // the damaged message alone through the type-31 decoder
                if let Some(m) = s.msgs.iter().find(|m| m.t31.is_some()) {
                    if m.off + HEADER <= s.bytes.len() {
                        let end = (m.off + m.len).min(s.bytes.len());
                        let img = s.bytes[m.off + HEADER..end].to_vec();
                        drive(ctx, &img, ReaderPlan::clean(), seed, Entry::Radar, "field-extreme");
                    }
                }
                if ctx.want_sample && ctx.nontrivial {
                    ctx.sample = Some(json!({"entry": "decode_messages + decode_digital_radar_data", "image_bytes": s.bytes.len(), "extremes": notes}));
                }
            }
            2 => {
                let len = match tape.weighted(&[3, 3, 2, 1]) {
                    0 => tape.draw(64) as usize,
                    1 => tape.draw(2600) as usize,
                    2 => tape.draw(8192) as usize,
                    _ => tape.draw(200_000) as usize,
                };
                let mut img = tape.bytes(len);
                // bias: make the first header plausible sometimes so that bodies are reached
                if len > HEADER && tape.draw(2) == 1 {
                    img[15] = [31u8, 2, 5, 15, 1, 0][tape.draw(6) as usize];
                }
                if len > 64 && tape.draw(3) == 2 {
                    // a plausible type-31 data header with a small block count and near pointers
                    img[15] = 31;
                    let n = tape.draw(12) as u16;
                    img[HEADER + 30..HEADER + 32].copy_from_slice(&n.to_be_bytes());
                    for k in 0..n as usize {
                        let o = HEADER + 32 + 4 * k;
                        if o + 4 <= len {
                            let ptr = tape.draw(len as u64 + 64) as u32;
                            img[o..o + 4].copy_from_slice(&ptr.to_be_bytes());
                            let po = HEADER + ptr as usize;
                            if po + 4 <= len && tape.draw(2) == 1 {
                                img[po] = b'D';
                                let nm = [&b"REF"[..], b"VEL", b"SW ", b"ZDR", b"PHI", b"RHO", b"CFP", b"VOL", b"ELV", b"RAD", b"QQQ"][tape.draw(11) as usize];
                                img[po + 1..po + 4].copy_from_slice(nm);
                                if nm == b"QQQ" {
                                    ctx.count("unknown_block_name_reached");
                                }
                            }
                        }
                    }
                }
                let entry = match tape.weighted(&[4, 1, 3, 2, 1, 1, 2]) {
                    0 => Entry::Messages,
                    1 => Entry::Header,
                    2 => Entry::Contents(if tape.draw(2) == 0 { [31u8, 2, 5, 15][tape.draw(4) as usize] } else { tape.draw(256) as u8 }),
                    3 => Entry::Radar,
                    4 => Entry::Status,
                    5 => Entry::Vcp,
                    _ => Entry::Clutter,
                };
                let plan = reader_faults(tape, len);
                let seed = tape.seed();
                ctx.ev("case", &[len as u64], || format!("random image, entry {}, device {:?}", entry.name(), plan));
                ctx.class.b(&img);
                ctx.class.s(&entry.name());
                ctx.nontrivial = len >= HEADER;
                // for the body decoders the image starts at the body
                let body_entry = !matches!(entry, Entry::Messages | Entry::Header);
                let image: &[u8] = if body_entry && len > HEADER && tape.draw(2) == 1 { &img[HEADER..] } else { &img };
                drive(ctx, image, plan.clone(), seed, entry, "random-bytes");
                if ctx.want_sample && ctx.nontrivial {
                    ctx.sample = Some(json!({"entry": entry.name(), "image_bytes": len, "device": format!("{:?}", plan)}));
                }
            }
            3 => {
                let small = StreamOpts { max_msgs: 3, max_gates: 24, ..opts.clone() };
                let s = build_stream(tape, &small);
                let len = s.bytes.len();
                let plan0 = ReaderPlan::dribble(tape);
                let seed = tape.seed();
                let with_hard = tape.draw(2) == 1;
                ctx.ev("case", &[len as u64], || format!("every prefix of a {}-byte stream, device {:?}", len, plan0));
                ctx.class.b(&s.bytes);
                ctx.nontrivial = s.msgs.len() >= 2;
                let step = if len > 8192 { len / 4096 + 1 } else { 1 };
                let mut t = 0;
                while t <= len {
                    let mut plan = plan0.clone();
                    plan.eof_at = Some(t);
                    if with_hard && t % 5 == 0 {
                        plan.hard_error_at_read = Some((t as u64 * 7919) % 200);
                    }
                    if t % 7 == 3 {
                        plan.seek_error_at = Some((t as u64) % 9);
                    }
                    drive(ctx, &s.bytes, plan, seed ^ t as u64, Entry::Messages, "prefix");
                    if ctx.failed() {
                        return;
                    }
                    t += step;
                }
                if ctx.want_sample && ctx.nontrivial {
                    ctx.sample = Some(json!({"entry": "decode_messages", "image_bytes": len, "prefixes": len / step + 1, "device": format!("{:?}", plan0), "hard_errors": with_hard}));
                }
            }
            4 => {
                let mut r = tape.fork();
                let (img, what) = amplification(tape, &mut r);
                let plan = if tape.draw(4) == 3 { ReaderPlan { max_chunk: 4096, ..Default::default() } } else { ReaderPlan::clean() };
                let seed = tape.seed();
                ctx.ev("case", &[img.len() as u64], || what.clone());
                ctx.class.s(&what);
                ctx.nontrivial = true;
                ctx.count("amplification_case");
                drive(ctx, &img, plan, seed, Entry::Messages, "amplification");
                if ctx.want_sample {
                    ctx.sample = Some(json!({"entry": "decode_messages", "image_bytes": img.len(), "crafted": what, "peak_heap_bytes": ctx.counters.get("max_peak_bytes")}));
                }
            }
            _ => {
                // valid bodies of the four dedicated decoders, damaged and/or cut
                let mut r = tape.fork();
                let which = tape.draw(4);
                let (mut img, entry) = match which {
                    0 => {
                        let spec = icd::T31Spec::draw(tape, 1, true, true, 1840);
                        let (m, _) = spec.encode(&mut r);
                        (m[HEADER..].to_vec(), Entry::Radar)
                    }
                    1 => {
                        let mut b = vec![0u8; 120 + tape.draw(40) as usize];
                        r.fill(&mut b);
                        (b, Entry::Status)
                    }
                    2 => {
                        let mut spec = icd::VcpSpec::draw(tape, 51);
                        if tape.draw(3) == 2 {
                            spec.declared_cuts = [65535u16, 52, 1000, 0][tape.draw(4) as usize];
                            ctx.count("extreme_applied");
                        }
                        let mut b = spec.encode_body(&mut r);
                        if tape.draw(3) == 2 {
                            // the body's own size halfword: smaller than the header, zero, huge
                            let v = [0u16, 5, 10, 11, 65535, 1][tape.draw(6) as usize];
                            b[0..2].copy_from_slice(&v.to_be_bytes());
                            ctx.count("extreme_applied");
                        }
                        (b, Entry::Vcp)
                    }
                    _ => {
                        if tape.draw(16) == 15 {
                            // 255 complete segments present, declared count beyond what fits a byte
                            let (mut b, _) = icd::clutter_filter_map_with(&mut r, 255, 4, None);
                            let declared = [256u16, 257, 300, 511, 65535][tape.draw(5) as usize];
                            b[4..6].copy_from_slice(&declared.to_be_bytes());
                            ctx.count("extreme_applied");
                            ctx.count("clutter_255_segments_declared_more");
                            (b, Entry::Clutter)
                        } else {
                            let (b, _) = icd::clutter_filter_map(tape, &mut r, 3, true);
                            (b, Entry::Clutter)
                        }
                    }
                };
                let k = tape.draw(4);
                let mut notes = Vec::new();
                for _ in 0..k {
                    let d = damage(&mut img, tape);
                    notes.push(format!("{}@{}+{}", d.kind, d.at, d.len));
                }
                let plan = reader_faults(tape, img.len());
                let seed = tape.seed();
                ctx.ev("case", &[img.len() as u64, which], || format!("{} damage {:?} device {:?}", entry.name(), notes, plan));
                ctx.class.b(&img);
                ctx.class.u(which);
                ctx.nontrivial = true;
                drive(ctx, &img, plan.clone(), seed, entry, "single-decoder");
                if ctx.want_sample {
                    ctx.sample = Some(json!({"entry": entry.name(), "image_bytes": img.len(), "damage": notes, "device": format!("{:?}", plan)}));
                }
            }
        }
    }
}
