//! C13 - clutter filter map decoded through the simulated device.

use crate::ctx::{Ctx, Params, Tier};
use crate::driver::{Check, Section};
use crate::icd::{self, CfmRef};
use crate::streamsim::{ReaderPlan, SimReader};
use crate::tape::Tape;
use chrono::{Duration, TimeZone, Utc};
use nexrad_decode::messages::clutter_filter_map::{decode_clutter_filter_map, Message, OpCode};
use serde_json::json;

pub struct C13;

fn compare(ctx: &mut Ctx, m: &Message, r: &CfmRef, what: &str) {
    if m.header.map_generation_date != r.date || m.header.map_generation_time != r.minutes {
        ctx.violate("header", what.into(), format!("{}: generation date/time {} / {} decoded, {} / {} encoded", what, m.header.map_generation_date, m.header.map_generation_time, r.date, r.minutes));
        return;
    }
    let want = Utc.with_ymd_and_hms(1970, 1, 1, 0, 0, 0).single().map(|e| e + Duration::days(r.date as i64 - 1) + Duration::minutes(r.minutes as i64));
    if m.header.date_time() != want {
        ctx.violate("generation-date-time", what.into(), format!("{}: date_time() = {:?}, expected {:?}", what, m.header.date_time(), want));
        return;
    }
    if m.elevation_segments.len() != r.segments.len() {
        ctx.violate("segment-count", what.into(), format!("{}: {} elevation segments decoded, {} encoded", what, m.elevation_segments.len(), r.segments.len()));
        return;
    }
    for (si, (seg, rseg)) in m.elevation_segments.iter().zip(r.segments.iter()).enumerate() {
        if si > 0 {
            let prev = m.elevation_segments[si - 1].elevation_segment_number as u32;
            if seg.elevation_segment_number as u32 != prev + 1 {
                ctx.violate("segment-numbering", what.into(), format!("{}: segment {} is numbered {} after {}", what, si, seg.elevation_segment_number, prev));
                return;
            }
        }
        if seg.azimuth_segments.len() != 360 {
            ctx.violate("azimuth-count", what.into(), format!("{}: segment {} has {} azimuth segments", what, si, seg.azimuth_segments.len()));
            return;
        }
        for (ai, (az, raz)) in seg.azimuth_segments.iter().zip(rseg.iter()).enumerate() {
            if az.azimuth_segment as usize != ai {
                ctx.violate("azimuth-numbering", what.into(), format!("{}: segment {} azimuth {} is numbered {}", what, si, ai, az.azimuth_segment));
                return;
            }
            if az.header.range_zone_count as usize != raz.len() || az.range_zones.len() != raz.len() {
                ctx.violate("zone-count", what.into(), format!("{}: segment {} azimuth {}: declared {} decoded {} encoded {}", what, si, ai, az.header.range_zone_count, az.range_zones.len(), raz.len()));
                return;
            }
            for (zi, (z, rz)) in az.range_zones.iter().zip(raz.iter()).enumerate() {
                if z.op_code != rz.0 || z.end_range != rz.1 {
                    ctx.violate("zone-value", what.into(), format!("{}: segment {} azimuth {} zone {}: ({}, {}) decoded, ({}, {}) encoded", what, si, ai, zi, z.op_code, z.end_range, rz.0, rz.1));
                    return;
                }
                let want = match rz.0 {
                    0 => OpCode::BypassFilter,
                    1 => OpCode::BypassMapInControl,
                    _ => OpCode::ForceFilter,
                };
                if z.op_code() != want {
                    ctx.violate("op-code-meaning", format!("{}:code{}", what, rz.0), format!("{}: operation code {} means {:?}, expected {:?}", what, rz.0, z.op_code(), want));
                    return;
                }
            }
        }
    }
}

fn decode_via(image: &[u8], plan: ReaderPlan, seed: u64, ctx: &mut Ctx) -> (Result<Message, String>, bool) {
    let mut rd = SimReader::new(image, plan, seed, ctx.trace_on);
    let r = decode_clutter_filter_map(&mut rd).map_err(|e| format!("{:?}", e));
    rd.account(ctx);
    ctx.evaluations += 1;
    (r, rd.tripped.is_some())
}

impl Check for C13 {
    fn id(&self) -> &'static str {
        "C13"
    }
    fn level(&self) -> &'static str {
        "fault_enumeration"
    }
    fn engine(&self) -> &'static str {
        "streamsim"
    }
    fn plan(&self, tier: Tier) -> Vec<Section> {
        match tier {
            Tier::Quick => vec![
                Section { name: "small-maps-every-cut", runs: 500 },
                Section { name: "large-maps-boundary-cuts", runs: 1_000 },
            ],
            Tier::Thorough => vec![
                Section { name: "small-maps-every-cut", runs: 30_000 },
                Section { name: "large-maps-boundary-cuts", runs: 60_000 },
            ],
        }
    }
    fn rule(&self) -> &'static str {
        "a case is a clutter filter map body from the reference encoder (0..=255 elevation segments x 360 azimuths x 0..=25 zones, one azimuth sometimes with up to 65535 zones, random op codes 0/1/2 and end ranges) served by the simulated device: clean and short-read/EINTR batches must reproduce the encoded structure exactly; an end of file at every byte (one-segment maps up to 6 KiB) or at every sampled structural boundary -1/0/+1 plus drawn offsets must be an error. evaluations = decode calls. Non-trivial = at least one segment with at least one zone; distinct = hash of (segment count, zone-count vector digest)"
    }
    fn assumptions(&self) -> Vec<&'static str> {
        vec![
            "body layout per ICD 2620002W table XIV: date, time (minutes), segment count, then per segment 360 x (zone count, count x (op code, end range)), all big-endian halfwords",
            "segment numbering base (0 or 1) is not fixed by the statement; only consecutiveness is checked",
        ]
    }
    fn components(&self) -> serde_json::Value {
        json!({"real": ["nexrad_decode::messages::clutter_filter_map::decode_clutter_filter_map", "Header::date_time", "RangeZone::op_code"],
               "stub": ["the storage device behind Read (SimReader)"]})
    }
    fn required_probes(&self, _tier: Tier) -> Vec<&'static str> {
        vec!["cut_is_error", "fault.eintr", "fault.short_read", "zero_segments", "max_segments_255", "huge_zone_count", "cut_between_segments"]
    }

    fn run(&self, p: &Params, tape: &mut Tape, ctx: &mut Ctx) {
        crate::icd::ALLOW_NON_FINITE.with(|a| a.set(false));
        let small = p.section == 0;
        let mut r = tape.fork();
        let (bytes, rf) = if !small && tape.draw(40) == 39 {
            // 200..255 segments with 40..60 zones in every azimuth: a well-formed body of 13..22 MiB
            ctx.count("body_above_16_mib_attempted");
            icd::clutter_filter_map_with(&mut r, 200 + tape.draw(56) as usize, 3, None)
        } else {
            icd::clutter_filter_map(tape, &mut r, if small { 1 } else { 255 }, !small)
        };
        if bytes.len() > 16 * 1024 * 1024 {
            ctx.count("body_above_16_mib");
        }
        let zones: usize = rf.segments.iter().map(|s| s.iter().map(|a| a.len()).sum::<usize>()).sum();
        ctx.nontrivial = !rf.segments.is_empty() && zones > 0;
        ctx.class.u(rf.segments.len() as u64);
        ctx.class.u(zones as u64);
        ctx.class.b(&bytes[..bytes.len().min(4096)]);
        if rf.segments.is_empty() {
            ctx.count("zero_segments");
        }
        if rf.segments.len() == 255 {
            ctx.count("max_segments_255");
        }
        if rf.segments.iter().any(|s| s.iter().any(|a| a.len() > 25)) {
            ctx.count("huge_zone_count");
        }
        ctx.ev("map", &[rf.segments.len() as u64, zones as u64, bytes.len() as u64], || {
            format!("{} segments, {} zones, {} bytes", rf.segments.len(), zones, bytes.len())
        });

        // clean
        let (clean, tripped) = decode_via(&bytes, ReaderPlan::clean(), 0, ctx);
        if tripped {
            ctx.violate("terminates", "clean".into(), "operation budget exceeded".into());
            return;
        }
        let clean = match clean {
            Ok(m) => m,
            Err(e) => {
                ctx.violate("clean-decodes", "error".into(), format!("well-formed map with {} segments failed to decode: {}", rf.segments.len(), e));
                return;
            }
        };
        compare(ctx, &clean, &rf, "clean");
        if ctx.failed() {
            return;
        }
        // trailing bytes (the rest of the segment frame) must not matter
        {
            let mut padded = bytes.clone();
            let extra = 1 + tape.draw(40) as usize;
            padded.extend_from_slice(&tape.bytes(extra));
            let (m, _) = decode_via(&padded, ReaderPlan::clean(), 0, ctx);
            match m {
                Ok(m) if m == clean => {}
                other => {
                    ctx.violate("trailing-bytes", "differs".into(), format!("bytes after the declared structure changed the result: {:?}", other.map(|_| "different message")));
                    return;
                }
            }
        }
        // dribble
        let plan = ReaderPlan::dribble(tape);
        let seed = tape.seed();
        let (dr, tripped) = decode_via(&bytes, plan.clone(), seed, ctx);
        if tripped {
            ctx.violate("terminates", "dribble".into(), "operation budget exceeded".into());
            return;
        }
        match dr {
            Ok(m) if m == clean => {}
            Ok(_) => {
                ctx.violate("dribble-identical", "differs".into(), format!("short reads / EINTR ({:?}) changed the decoded map", plan));
                return;
            }
            Err(e) => {
                ctx.violate("dribble-identical", "error".into(), format!("short reads / EINTR ({:?}) made a well-formed map fail: {}", plan, e));
                return;
            }
        }
        // cuts
        let len = bytes.len();
        let mut cuts: Vec<usize> = Vec::new();
        if small && len <= 6 * 1024 {
            cuts.extend(0..len);
        } else {
            let nb = rf.boundaries.len();
            // keep the bytes processed per run bounded (~30 MB)
            let picks = (30_000_000 / len.max(1)).clamp(4, 60) / 3;
            for _ in 0..picks {
                let b = rf.boundaries[tape.draw(nb as u64) as usize];
                for d in [-1i64, 0, 1] {
                    let t = b as i64 + d;
                    if t >= 0 && (t as usize) < len {
                        cuts.push(t as usize);
                    }
                }
            }
            // cuts exactly between elevation segments (and one byte either side)
            let ns = rf.segment_ends.len();
            for _ in 0..picks.min(ns) {
                let e = rf.segment_ends[tape.draw(ns as u64) as usize];
                for d in [-1i64, 0, 1] {
                    let t = e as i64 + d;
                    if t >= 0 && (t as usize) < len {
                        cuts.push(t as usize);
                        if d == 0 {
                            ctx.count("cut_between_segments");
                        }
                    }
                }
            }
            for t in [0usize, 1, 5, 6, 7, len - 1] {
                if t < len {
                    cuts.push(t);
                }
            }
            for _ in 0..picks {
                cuts.push(tape.draw(len as u64) as usize);
            }
            cuts.sort_unstable();
            cuts.dedup();
        }
        for (ci, t) in cuts.iter().copied().enumerate() {
            let mut pl = if ci % 4 == 0 { plan.clone() } else { ReaderPlan::clean() };
            pl.eof_at = Some(t);
            let (r, tripped) = decode_via(&bytes, pl, seed ^ t as u64, ctx);
            if tripped {
                ctx.violate("terminates", "cut".into(), format!("operation budget exceeded with end of file at byte {}", t));
                return;
            }
            match r {
                Err(_) => ctx.count("cut_is_error"),
                Ok(m) => {
                    ctx.violate(
                        "cut-is-error",
                        if rf.boundaries.contains(&t) { "at-boundary".into() } else { "inside-field".into() },
                        format!("body of {} bytes ({} segments) cut at byte {} decoded successfully with {} segments", len, rf.segments.len(), t, m.elevation_segments.len()),
                    );
                    return;
                }
            }
        }
        if ctx.want_sample && ctx.nontrivial {
            ctx.sample = Some(json!({"segments": rf.segments.len(), "zones_total": zones, "bytes": len,
                "zone_counts_first_azimuths": rf.segments.first().map(|s| s.iter().take(12).map(|a| a.len()).collect::<Vec<_>>()),
                "device": format!("{:?}", plan), "cut_points_tried": cuts.len()}));
        }
    }
}
