//! C17 - S3 listing and download against a reference bucket served by the simulated endpoint.

use crate::ctx::{Ctx, Params, Tier};
use crate::driver::{Check, Section};
use crate::s3sim::{self, Backend, BodyPlan, Core, ListedObject, NetPlan, Reply, ReqKind, Request};
use crate::tape::Tape;
use chrono::{NaiveDate, TimeZone, Utc};
use nexrad_data::aws::archive::{self, Identifier};
use nexrad_data::aws::realtime::{self, Chunk, ChunkIdentifier, VolumeIndex};
use nexrad_data::result::aws::AWSError;
use nexrad_data::result::Error;
use serde_json::json;
use std::collections::BTreeMap;

pub struct C17;

#[derive(Clone, Debug)]
struct Obj {
    data: Vec<u8>,
    stamp_ms: i64,
    fraction: bool,
    listed_size: String,
}

#[derive(Clone, Debug, PartialEq, Eq)]
enum Fault {
    None,
    Status(u16),
    /// an error status whose body is long and carries multi-byte and invalid UTF-8 sequences
    StatusLongBody(u16, u64),
    SendError,
    BodyCut(usize),
    /// listing: XML cut at byte k
    XmlCut(usize),
    /// listing: one object's Size replaced
    BadSize(String),
    /// listing: the LastModified of the object at this index (modulo the page length) is replaced
    BadLastModified(usize),
    /// listing: extra unknown elements, pretty printing
    ExtraElements,
    /// download: Last-Modified header missing or garbage
    BadLastModifiedHeader(bool),
}

struct Bucket {
    archive: BTreeMap<String, Obj>,
    realtime: BTreeMap<String, Obj>,
    fault: Fault,
    latency: u64,
    frame: usize,
    last_served_listing: Option<(Vec<String>, bool)>,
    /// zero-length data frames inside response bodies (legal in HTTP/2 and chunked transfer)
    empty_frames: usize,
    /// the informational counters of a listing page (KeyCount, MaxKeys) carry nonsense
    bad_counts: bool,
    /// S3 may return fewer keys than max-keys and flag the page as truncated
    short_page: Option<usize>,
}

impl Backend for Bucket {
    fn on_request(&mut self, core: &mut Core, _req: &Request) -> NetPlan {
        let mut p = NetPlan::default();
        if self.latency > 0 {
            p.up_ms = core.tape.draw(self.latency + 1);
            p.down_ms = core.tape.draw(self.latency + 1);
        }
        p.body = BodyPlan { cut_at: None, frame: self.frame, frame_delay_ms: if self.frame > 0 { 3 } else { 0 }, empty_frame_every: self.empty_frames };
        if self.empty_frames > 0 {
            core.ctx.count("fault.zero_length_body_frame");
        }
        p
    }

    fn serve(&mut self, _core: &mut Core, req: &Request) -> Reply {
        let (map, bucket_name) = if req.host == s3sim::ARCHIVE_HOST {
            (&self.archive, "noaa-nexrad-level2")
        } else if req.host == s3sim::REALTIME_HOST {
            (&self.realtime, "unidata-nexrad-level2-chunks")
        } else {
            return s3sim::status_reply(404, None);
        };
        match &self.fault {
            Fault::Status(s) => {
                return s3sim::status_reply(*s, match &req.kind {
                    ReqKind::Get { key } => Some(key),
                    _ => None,
                })
            }
            Fault::StatusLongBody(s, seed) => {
                let mut r = crate::rng::Rng::new(*seed);
                let n = 600 + r.below(3000) as usize;
                let mut body: Vec<u8> = b"<?xml version=\"1.0\" encoding=\"UTF-8\"?><Error><Code>InternalError</Code><Message>".to_vec();
                while body.len() < n {
                    match r.below(5) {
                        0 => body.extend_from_slice("é".as_bytes()),
                        1 => body.extend_from_slice("雷達".as_bytes()),
                        2 => body.extend_from_slice("🌩".as_bytes()),
                        3 => body.push(0x80 + r.below(0x7F) as u8),
                        _ => body.push(b'a' + r.below(26) as u8),
                    }
                }
                body.extend_from_slice(b"</Message></Error>");
                return Reply::Raw { status: *s, body };
            }
            Fault::SendError => return Reply::SendError,
            _ => {}
        }
        // a delimiter rolls nested keys up into CommonPrefixes (S3 semantics)
        let (list_kind, delimiter): (Option<(&String, &Option<usize>)>, Option<&String>) = match &req.kind {
            ReqKind::List { prefix, max_keys } => (Some((prefix, max_keys)), None),
            ReqKind::ListDelimited { prefix, max_keys, delimiter } => (Some((prefix, max_keys)), Some(delimiter)),
            _ => (None, None),
        };
        match &req.kind {
            ReqKind::List { .. } | ReqKind::ListDelimited { .. } => {
                let (prefix, max_keys) = list_kind.unwrap();
                let max = max_keys.unwrap_or(1000).min(1000);
                let mut objects = Vec::new();
                let mut keys = Vec::new();
                let mut truncated = false;
                for (k, o) in map.range(prefix.clone()..) {
                    if !k.starts_with(prefix.as_str()) {
                        break;
                    }
                    if let Some(d) = delimiter {
                        if k[prefix.len()..].contains(d.as_str()) {
                            // rolled up into a common prefix, not listed
                            continue;
                        }
                    }
                    if objects.len() == max {
                        truncated = true;
                        break;
                    }
                    keys.push(k.clone());
                    objects.push(ListedObject {
                        key: k.clone(),
                        last_modified: s3sim::rfc3339_ms(o.stamp_ms, o.fraction),
                        size: o.listed_size.clone(),
                    });
                }
                if let Some(m) = self.short_page {
                    if objects.len() > m {
                        objects.truncate(m);
                        keys.truncate(m);
                        truncated = true;
                    }
                }
                match &self.fault {
                    Fault::BadSize(s) => {
                        if let Some(o) = objects.last_mut() {
                            o.size = s.clone();
                        }
                    }
                    Fault::BadLastModified(i) => {
                        let n = objects.len();
                        if n > 0 {
                            objects[*i % n].last_modified = "yesterday at noon".to_string();
                        }
                    }
                    _ => {}
                }
                self.last_served_listing = Some((keys, truncated));
                let pretty = self.fault == Fault::ExtraElements;
                let mut xml = s3sim::list_xml(bucket_name, prefix, max, &objects, truncated, pretty);
                if self.bad_counts {
                    // fields the library has no use for: huge, negative and non-numeric values
                    xml = xml.replacen(&format!("<KeyCount>{}</KeyCount>", objects.len()), "<KeyCount>9999999999999999999</KeyCount>", 1);
                    xml = xml.replacen(&format!("<MaxKeys>{}</MaxKeys>", max), "<MaxKeys>-1</MaxKeys><KeyCount>18446744073709551615</KeyCount><KeyCount>many</KeyCount>", 1);
                }
                if pretty {
                    xml = xml.replace("</Contents>", "<Owner><ID>abc</ID><DisplayName>x &amp; y</DisplayName></Owner><ChecksumAlgorithm>CRC32</ChecksumAlgorithm></Contents>");
                    xml = xml.replace("</ListBucketResult>", "<CommonPrefixes><Prefix>zzz/</Prefix></CommonPrefixes><EncodingType>none</EncodingType></ListBucketResult>");
                }
                if let Fault::XmlCut(k) = &self.fault {
                    let mut cut = (*k).min(xml.len());
                    while !xml.is_char_boundary(cut) {
                        cut -= 1;
                    }
                    xml.truncate(cut);
                }
                Reply::Text { status: 200, body: xml }
            }
            ReqKind::Get { key } => match map.get(key) {
                None => s3sim::status_reply(404, Some(key)),
                Some(o) => {
                    let lm = match &self.fault {
                        Fault::BadLastModifiedHeader(true) => None,
                        Fault::BadLastModifiedHeader(false) => Some("sometime last week".to_string()),
                        _ => Some(s3sim::rfc2822_ms(o.stamp_ms)),
                    };
                    let cut_at = match &self.fault {
                        Fault::BodyCut(k) => Some((*k).min(o.data.len().saturating_sub(1))),
                        _ => None,
                    };
                    Reply::Object { data: o.data.clone(), last_modified: lm, cut_at }
                }
            },
            ReqKind::Bad(_) => s3sim::status_reply(400, None),
        }
    }
}

const SEG_ALPHABETS: [&str; 6] = [
    "abcdefghijklmnopqrstuvwxyzABCDEFGHIJKLMNOPQRSTUVWXYZ0123456789_-.",
    "&<>\"' ",
    "åßçđéñ雷達데이터🌩\u{FFFD}\u{E000}\u{D7FF}\u{10FFFF}",
    "&amp;&lt;]]><!--",
    "%#?+=;:@!$*(),~\t ",
    "/",
];

/// A name segment. `for_download` restricts to what a URL path can carry unambiguously
/// (the statement lists & < > quotes and non-ASCII).
fn draw_segment(tape: &mut Tape, for_download: bool, allow_slash: bool) -> String {
    let len = 1 + tape.draw(12) as usize;
    let mut s = String::new();
    let style = tape.weighted(&[4, 2, 2, 1, 1, 1]);
    for _ in 0..len {
        let a = match style {
            0 => 0,
            1 => [0usize, 1][tape.draw(2) as usize],
            2 => [0usize, 2][tape.draw(2) as usize],
            3 => 3,
            4 => {
                if for_download {
                    1
                } else {
                    4
                }
            }
            _ => {
                if allow_slash && tape.draw(3) == 0 {
                    5
                } else {
                    0
                }
            }
        };
        let chars: Vec<char> = SEG_ALPHABETS[a].chars().collect();
        if a == 3 {
            // multi-character XML look-alikes, kept whole
            s.push_str(["&amp;", "&lt;", "]]>", "<!--"][tape.draw(4) as usize]);
        } else {
            s.push(chars[tape.draw(chars.len() as u64) as usize]);
        }
    }
    // S3 keys never contain empty segments in these buckets; avoid leading/trailing slash
    // no empty segments, no "." / ".." segments (URL normalisation would rewrite them; such keys
    // are outside the statement), no leading/trailing blanks
    let parts: Vec<String> = s
        .split('/')
        .map(|p| if for_download { p.trim_matches(' ').to_string() } else { p.to_string() })
        .filter(|p| !p.is_empty())
        .map(|p| if p == "." || p == ".." { "dot".to_string() } else { p })
        .collect();
    let mut name = if parts.is_empty() { "x".to_string() } else { parts.join("/") };
    // suffixes and whole names the real buckets hold next to the volume files
    if tape.draw(6) == 5 {
        const SUFFIXES: [&str; 10] = [".tar", ".gz", "_MDM", ".Z", ".bz2", "_V06", "_V06.gz", ".tmp", ".md5", ".xml"];
        if tape.draw(8) == 0 {
            name = "NWS_NEXRAD_NXL2DPBL_KDMX_20100101000000_20100101235959.tar".to_string();
        } else {
            name.push_str(SUFFIXES[tape.draw(SUFFIXES.len() as u64) as usize]);
        }
    }
    name
}

/// Object content that looks like something else: an S3 error document, a listing page, HTML.
/// Stored bytes are opaque; a 200 answer carrying them must come back unchanged.
fn lookalike_payload(tape: &mut Tape) -> Vec<u8> {
    let mut d: Vec<u8> = match tape.draw(4) {
        0 => b"<?xml version=\"1.0\" encoding=\"UTF-8\"?>\n<Error><Code>NoSuchKey</Code><Message>The specified key does not exist.</Message><Key>x</Key><RequestId>0</RequestId></Error>".to_vec(),
        1 => b"<?xml version=\"1.0\" encoding=\"UTF-8\"?><Error><Code>InternalError</Code></Error>".to_vec(),
        2 => b"<?xml version=\"1.0\" encoding=\"UTF-8\"?><ListBucketResult xmlns=\"http://s3.amazonaws.com/doc/2006-03-01/\"><Name>b</Name><IsTruncated>true</IsTruncated></ListBucketResult>".to_vec(),
        _ => b"<html><head><title>503 Service Unavailable</title></head><body><Error>slow down</Error></body></html>".to_vec(),
    };
    if tape.draw(2) == 1 {
        let n = tape.draw(64) as usize;
        d.extend(tape.bytes(n));
    }
    d
}

fn chunk_like_payload(tape: &mut Tape) -> Vec<u8> {
    let n = match tape.weighted(&[5, 2, 1]) {
        0 => tape.draw(600) as usize,
        1 => tape.draw(20_000) as usize,
        _ => tape.draw(1_048_576) as usize,
    };
    let mut d = tape.bytes(n + 8);
    if tape.draw(2) == 0 {
        d[0..4].copy_from_slice(b"AR2V");
    } else {
        d[4] = b'B';
        d[5] = b'Z';
        if &d[0..3] == b"AR2" {
            d[0] = 0;
        }
    }
    d
}

fn plain_payload(tape: &mut Tape) -> Vec<u8> {
    if tape.draw(12) == 11 {
        return lookalike_payload(tape);
    }
    let n = match tape.weighted(&[5, 2, 1, 1]) {
        0 => tape.draw(600) as usize,
        1 => tape.draw(20_000) as usize,
        2 => 0,
        _ => tape.draw(1_048_576) as usize,
    };
    tape.bytes(n)
}

fn listed_size(tape: &mut Tape, data_len: usize) -> String {
    match tape.weighted(&[6, 1, 1, 1]) {
        0 => data_len.to_string(),
        1 => u64::MAX.to_string(),
        2 => "0".to_string(),
        _ => (1u64 << (32 + tape.draw(31))).to_string(),
    }
}

fn err_kind(e: &Error) -> String {
    match e {
        Error::AWS(a) => match a {
            AWSError::S3ObjectNotFoundError => "NotFound".into(),
            AWSError::S3GetObjectError(_) => "GetObjectError".into(),
            AWSError::S3GetObjectRequestError(_) => "GetObjectRequestError".into(),
            AWSError::S3StreamingError(_) => "StreamingError".into(),
            AWSError::S3ListObjectsError(_) => "ListObjectsError".into(),
            AWSError::S3ListObjectsDecodingError => "ListObjectsDecodingError".into(),
            AWSError::TruncatedListObjectsResponse => "TruncatedListObjectsResponse".into(),
            AWSError::UnrecognizedChunkFormat => "UnrecognizedChunkFormat".into(),
            AWSError::DateTimeError(_) => "DateTimeError".into(),
            AWSError::InvalidSiteIdentifier(_) => "InvalidSiteIdentifier".into(),
            other => format!("{:?}", other),
        },
        other => format!("{:?}", other).chars().take(40).collect(),
    }
}

fn final_segment(key: &str) -> &str {
    key.rsplit('/').next().unwrap_or(key)
}

fn draw_fault(tape: &mut Tape, listing: bool) -> Fault {
    if listing {
        match tape.weighted(&[0, 2, 1, 2, 2, 1, 2]) {
            1 => Fault::Status([500u16, 503, 403, 404, 400][tape.draw(5) as usize]),
            2 => Fault::SendError,
            3 => Fault::XmlCut(tape.draw(3000) as usize),
            4 => Fault::BadSize(["12x", "twelve", "-1", "18446744073709551616", "1e3", " 7", "0x10"][tape.draw(7) as usize].to_string()),
            5 => Fault::BadLastModified(tape.draw(40) as usize),
            _ => Fault::ExtraElements,
        }
    } else {
        match tape.weighted(&[0, 3, 1, 2, 1]) {
            1 => {
                let st = [500u16, 503, 403, 301, 400, 201, 204, 206][tape.draw(8) as usize];
                if tape.draw(3) == 2 {
                    Fault::StatusLongBody(st, tape.seed())
                } else {
                    Fault::Status(st)
                }
            }
            2 => Fault::SendError,
            3 => Fault::BodyCut(tape.draw(5000) as usize),
            _ => Fault::BadLastModifiedHeader(tape.draw(2) == 0),
        }
    }
}

impl Check for C17 {
    fn id(&self) -> &'static str {
        "C17"
    }
    fn level(&self) -> &'static str {
        "exploration"
    }
    fn engine(&self) -> &'static str {
        "s3sim"
    }
    fn plan(&self, tier: Tier) -> Vec<Section> {
        match tier {
            Tier::Quick => vec![
                Section { name: "fault-free-calls", runs: 30_000 },
                Section { name: "calls-with-response-faults", runs: 30_000 },
                Section { name: "large-listings-999..1001", runs: 150 },
            ],
            Tier::Thorough => vec![
                Section { name: "fault-free-calls", runs: 2_000_000 },
                Section { name: "calls-with-response-faults", runs: 2_000_000 },
                Section { name: "large-listings-999..1001", runs: 6_000 },
            ],
        }
    }
    fn rule(&self) -> &'static str {
        "a case is one public call (archive::list_files, archive::download_file, realtime::list_chunks_in_volume, realtime::download_chunk) against a randomly filled reference bucket (0..1001 objects under the requested prefix plus neighbours, name segments from ASCII, & < > quotes, spaces, non-ASCII, XML look-alikes, URL-special characters (listings only) and '/'; LastModified with/without fraction; listed sizes up to 2^64-1; payloads 0 B..1 MiB) served by the simulated endpoint, fault-free or with one response fault (500/503/403/404/400/301/2xx-not-200, request failure, mid-body cut, XML cut at byte k, bad Size, bad LastModified, unknown elements/pretty printing, missing/garbled Last-Modified header). Oracle: the reference bucket and the endpoint's request log. evaluations = calls (each is >= 1 simulated request). Non-trivial = call that touched >= 1 object; distinct = hash of (call kind, keys touched, fault)"
    }
    fn assumptions(&self) -> Vec<&'static str> {
        vec![
            "S3 semantics of the endpoint: byte-order keys, string-prefix match, max-keys (default 1000) with IsTruncated, XML-escaped keys, percent-decoded request paths",
            "keys used for *downloads* contain only characters the statement lists (& < > quotes, spaces, non-ASCII); '%', '#', '?' and '+' appear in listings only",
            "a non-200 *listing* response is not required to be an error by the statement; whatever is returned must not be a panic (after fix 4dee522 it is an error)",
        ]
    }
    fn components(&self) -> serde_json::Value {
        json!({"real": ["archive::list_files", "archive::download_file", "archive::Identifier", "realtime::list_chunks_in_volume", "realtime::download_chunk", "s3::list_objects (xml event loop)", "s3::download_object (status match, Last-Modified parse, body collection)", "Chunk::new"],
               "stub": ["reqwest client + TLS + TCP + S3 (in-process endpoint behind the reqwest::get seam)"]})
    }
    fn required_probes(&self, _tier: Tier) -> Vec<&'static str> {
        vec!["call.list_files", "call.download_file", "call.list_chunks", "call.download_chunk", "truncated_archive_listing", "key_with_xml_special", "key_with_non_ascii", "key_with_slash_in_name", "not_found_download", "fault.status", "fault.status_long_body", "fault.send_error", "fault.body_cut", "fault.xml_cut", "fault.bad_size", "fault.bad_last_modified", "fault.extra_elements", "fault.bad_last_modified_header", "listing_1000", "listing_1001", "short_truncated_page", "folder_marker_object", "max_keys_beyond_u32", "nested_realtime_key", "key_longer_than_256_bytes", "fault.zero_length_body_frame", "fault.nonsense_keycount"]
    }
    fn budget_s(&self, tier: Tier) -> u64 {
        match tier {
            Tier::Quick => 100,
            Tier::Thorough => 1500,
        }
    }

    fn run(&self, p: &Params, tape: &mut Tape, ctx: &mut Ctx) {
        let faulty = p.section == 1;
        let large = p.section == 2;
        // ---- bucket contents
        let site = ["KDMX", "KTLX", "PHWA", "TJUA"][tape.draw(4) as usize].to_string();
        // any calendar day, with the turn of the year (ISO week-year differs from the calendar year) over-represented
        let date = match tape.weighted(&[6, 1, 1]) {
            0 => {
                let (y, m, d) = (2010 + tape.draw(16) as i32, 1 + tape.draw(12) as u32, 1 + tape.draw(31) as u32);
                NaiveDate::from_ymd_opt(y, m, d).or_else(|| NaiveDate::from_ymd_opt(y, m, 28)).unwrap()
            }
            1 => NaiveDate::from_ymd_opt(2010 + tape.draw(16) as i32, 12, 29 + tape.draw(3) as u32).unwrap(),
            _ => NaiveDate::from_ymd_opt(2010 + tape.draw(16) as i32, 1, 1 + tape.draw(3) as u32).unwrap(),
        };
        let volume = 1 + tape.draw(999) as usize;
        let date_prefix = date.format("%Y/%m/%d").to_string();
        let n_objects = if large {
            [999usize, 1000, 1001][(p.index % 3) as usize]
        } else {
            match tape.weighted(&[5, 1, 1, 1, 2]) {
                0 => 1 + tape.draw(12) as usize,
                1 => 0,
                2 => 1,
                3 => 2,
                _ => tape.draw(120) as usize,
            }
        };
        let mut archive_map = BTreeMap::new();
        let mut realtime_map = BTreeMap::new();
        let mut archive_names: Vec<String> = Vec::new();
        for i in 0..n_objects {
            // archive: SSSSYYYYMMDD_HHMMSS + suffix
            let slash = !large && tape.draw(6) == 5;
            let suffix = if large { format!("_V06_{:04}", i) } else { format!("_{}", draw_segment(tape, true, slash)) };
            let name = format!("{}{}_{:02}{:02}{:02}{}", site, date.format("%Y%m%d"), tape.draw(24), tape.draw(60), tape.draw(60), suffix);
            let data = if large { vec![i as u8; 3] } else { plain_payload(tape) };
            let key = format!("{}/{}/{}", date_prefix, site, name);
            let o = Obj { listed_size: listed_size(tape, data.len()), data, stamp_ms: s3sim::EPOCH_MS - 1000 * tape.draw(1_000_000) as i64, fraction: tape.draw(2) == 1 };
            if archive_map.insert(key, o).is_none() {
                archive_names.push(name);
            }
        }
        // listing-only objects whose names carry URL-special characters
        if !large {
            for _ in 0..tape.draw(4) {
                let name = format!("{}{}_{:02}{:02}{:02}_{}", site, date.format("%Y%m%d"), tape.draw(24), tape.draw(60), tape.draw(60), draw_segment(tape, false, false));
                let key = format!("{}/{}/{}", date_prefix, site, name);
                archive_map.insert(key, Obj { data: vec![7; 5], stamp_ms: s3sim::EPOCH_MS - 5000, fraction: true, listed_size: "5".into() });
                let key = format!("{}/{}/{}", site, volume, draw_segment(tape, false, false));
                realtime_map.insert(key, Obj { data: vec![0, 0, 0, 1, b'B', b'Z', 1], stamp_ms: s3sim::EPOCH_MS - 7000, fraction: false, listed_size: "7".into() });
            }
            // objects nested below the volume / site directory, and very long keys (S3 allows 1024 bytes)
            if tape.draw(4) == 3 {
                let sub = draw_segment(tape, true, false);
                realtime_map.insert(format!("{}/{}/{}/{}", site, volume, sub, draw_segment(tape, true, false)), Obj { data: vec![0, 0, 0, 2, b'B', b'Z', 2, 2], stamp_ms: s3sim::EPOCH_MS - 11_000, fraction: true, listed_size: "8".into() });
                ctx.count("nested_realtime_key");
            }
            if tape.draw(4) == 3 {
                let long: String = (0..(260 + tape.draw(600) as usize)).map(|i| if i % 9 == 8 { 'é' } else { (b'a' + (i % 26) as u8) as char }).collect();
                archive_map.insert(format!("{}/{}/{}{}_000001_{}", date_prefix, site, site, date.format("%Y%m%d"), long), Obj { data: vec![1, 2, 3], stamp_ms: s3sim::EPOCH_MS - 12_000, fraction: false, listed_size: "3".into() });
                realtime_map.insert(format!("{}/{}/{}", site, volume, long), Obj { data: vec![0, 0, 0, 1, b'B', b'Z', 3], stamp_ms: s3sim::EPOCH_MS - 12_000, fraction: true, listed_size: "7".into() });
                ctx.count("key_longer_than_256_bytes");
            }
            // zero-byte "folder marker" objects: keys ending in '/', their final path segment is empty
            if tape.draw(5) == 4 {
                let sub = draw_segment(tape, true, false);
                archive_map.insert(format!("{}/{}/{}/", date_prefix, site, sub), Obj { data: vec![], stamp_ms: s3sim::EPOCH_MS - 9000, fraction: true, listed_size: if tape.draw(2) == 0 { "0".into() } else { "3".into() } });
                realtime_map.insert(format!("{}/{}/{}/", site, volume, sub), Obj { data: vec![], stamp_ms: s3sim::EPOCH_MS - 9000, fraction: false, listed_size: "0".into() });
                ctx.count("folder_marker_object");
            }
        }
        let mut chunk_names: Vec<String> = Vec::new();
        let n_rt = if large { n_objects.min(300) } else { n_objects };
        for i in 0..n_rt {
            let name = if large || tape.draw(2) == 0 {
                format!("20240804-101007-{:03}-{}", i + 1, if i == 0 { "S" } else { "I" })
            } else {
                draw_segment(tape, true, false)
            };
            let data = if large { vec![0, 0, 0, 2, b'B', b'Z', i as u8] } else { chunk_like_payload(tape) };
            let key = format!("{}/{}/{}", site, volume, name);
            let o = Obj { listed_size: listed_size(tape, data.len()), data, stamp_ms: s3sim::EPOCH_MS - 1000 * tape.draw(100_000) as i64, fraction: tape.draw(2) == 1 };
            if realtime_map.insert(key, o).is_none() {
                chunk_names.push(name);
            }
        }
        // neighbours that must not show up: other site, other day, other volume, longer volume number
        for extra in [
            format!("{}/{}/zzz", date_prefix, "KAAA"),
            format!("{}/{}x", date_prefix, "0000"),
            format!("1999/01/01/{}/old", site),
        ] {
            archive_map.insert(extra, Obj { data: vec![1], stamp_ms: s3sim::EPOCH_MS, fraction: false, listed_size: "1".into() });
        }
        for extra in [format!("{}/{}0/other-volume", site, volume), format!("{}/{}/other-site", "KAAA", volume), format!("{}/0{}/padded", site, volume)] {
            realtime_map.insert(extra, Obj { data: vec![0, 0, 0, 0, b'B', b'Z'], stamp_ms: s3sim::EPOCH_MS, fraction: true, listed_size: "6".into() });
        }
        let n_calls = if large { 2 } else { 1 + tape.draw(6) as usize };
        let empty_frames = [0usize, 0, 0, 1, 2][tape.draw(5) as usize];
        let bad_counts = tape.draw(8) == 7;
        if bad_counts {
            ctx.count("fault.nonsense_keycount");
        }
        let latency = [0u64, 0, 30, 900][tape.draw(4) as usize];
        let frame = [0usize, 0, 1000, 13][tape.draw(4) as usize];
        let ref_archive = archive_map.clone();
        let ref_realtime = realtime_map.clone();

        // ---- the calls
        #[derive(Debug)]
        enum Call {
            ListFiles,
            DownloadFile(String, bool),
            ListChunks(usize),
            DownloadChunk(String, bool),
        }
        let mut calls = Vec::new();
        for c in 0..n_calls {
            let kind = if large { c as u64 * 2 } else { tape.draw(4) };
            let call = match kind {
                0 => Call::ListFiles,
                1 => {
                    if !archive_names.is_empty() && tape.draw(5) != 0 {
                        Call::DownloadFile(archive_names[tape.draw(archive_names.len() as u64) as usize].clone(), true)
                    } else {
                        Call::DownloadFile(format!("{}{}_000000_missing", site, date.format("%Y%m%d")), false)
                    }
                }
                2 => Call::ListChunks(match tape.weighted(&[6, 4, 4, 2, 1]) {
                    0 => 100,
                    1 => 1,
                    2 => 1 + tape.draw(20) as usize,
                    3 => 1000,
                    // any usize is a legal argument; S3 caps a page at 1000
                    _ => [1usize << 32, (1usize << 32) + 1, (1usize << 32) + 5, usize::MAX, 1001, 65536][tape.draw(6) as usize],
                }),
                _ => {
                    if !chunk_names.is_empty() && tape.draw(5) != 0 {
                        Call::DownloadChunk(chunk_names[tape.draw(chunk_names.len() as u64) as usize].clone(), true)
                    } else {
                        Call::DownloadChunk("20240804-101007-777-missing".to_string(), false)
                    }
                }
            };
            let fault = if faulty { draw_fault(tape, matches!(call, Call::ListFiles | Call::ListChunks(_))) } else { Fault::None };
            let short = if !large && matches!(call, Call::ListFiles | Call::ListChunks(_)) && tape.draw(6) == 5 { Some(tape.draw(8) as usize) } else { None };
            calls.push((call, fault, short));
        }

        let site2 = site.clone();
        let results = s3sim::with_world(
            tape,
            ctx,
            |_core| Bucket { archive: archive_map, realtime: realtime_map, fault: Fault::None, latency, frame, last_served_listing: None, short_page: None, empty_frames, bad_counts },
            |world, rt| {
                rt.block_on(async {
                    let mut out = Vec::new();
                    for (call, fault, short) in &calls {
                        let log_before = world.borrow().core.log.len();
                        {
                            let mut w = world.borrow_mut();
                            w.backend.short_page = *short;
                            w.backend.fault = fault.clone();
                            w.backend.last_served_listing = None;
                        }
                        enum Res {
                            Names(Result<Vec<String>, Error>),
                            Chunks(Result<Vec<(String, String, usize, Option<i64>)>, Error>),
                            File(Result<Vec<u8>, Error>),
                            Chunk(Result<(String, String, usize, Option<i64>, Vec<u8>, bool), Error>),
                        }
                        let res = match call {
                            Call::ListFiles => Res::Names(archive::list_files(&site2, &date).await.map(|v| v.iter().map(|i| i.name().to_string()).collect())),
                            Call::DownloadFile(name, _) => Res::File(archive::download_file(Identifier::new(name.clone())).await.map(|f| f.data().clone())),
                            Call::ListChunks(max) => Res::Chunks(realtime::list_chunks_in_volume(&site2, VolumeIndex::new(volume), *max).await.map(|v| {
                                v.iter().map(|c| (c.site().to_string(), c.name().to_string(), c.volume().as_number(), c.date_time().map(|d| d.timestamp_millis()))).collect()
                            })),
                            Call::DownloadChunk(name, _) => {
                                // the identifier may already carry a time (e.g. from an earlier listing
                                // of an object that has been rewritten since): it must not leak out
                                let preset = if name.len() % 2 == 0 { Some(Utc.timestamp_millis_opt(s3sim::EPOCH_MS - 86_400_000 - 1000 * name.len() as i64).single().unwrap()) } else { None };
                                let id = ChunkIdentifier::new(site2.clone(), VolumeIndex::new(volume), name.clone(), preset);
                                Res::Chunk(realtime::download_chunk(&site2, &id).await.map(|(i, c)| {
                                    (i.site().to_string(), i.name().to_string(), i.volume().as_number(), i.date_time().map(|d| d.timestamp_millis()), c.data().to_vec(), matches!(c, Chunk::Start(_)))
                                }))
                            }
                        };
                        let w = world.borrow();
                        let reqs: Vec<Request> = w.core.log[log_before..].to_vec();
                        let served = w.backend.last_served_listing.clone();
                        out.push((reqs, served, match res {
                            Res::Names(r) => (Some(r), None, None, None),
                            Res::Chunks(r) => (None, Some(r), None, None),
                            Res::File(r) => (None, None, Some(r), None),
                            Res::Chunk(r) => (None, None, None, Some(r)),
                        }));
                    }
                    out
                })
            },
        );

        // ---- oracle
        let archive_prefix = format!("{}/{}", date_prefix, site);
        let rt_prefix = format!("{}/{}/", site, volume);
        for (ci, ((call, fault, short), (reqs, served, res))) in calls.iter().zip(results.into_iter()).enumerate() {
            ctx.evaluations += 1;
            let fname = match fault {
                Fault::None => "none",
                Fault::Status(_) => "status",
                Fault::StatusLongBody(..) => "status_long_body",
                Fault::SendError => "send_error",
                Fault::BodyCut(_) => "body_cut",
                Fault::XmlCut(_) => "xml_cut",
                Fault::BadSize(_) => "bad_size",
                Fault::BadLastModified(_) => "bad_last_modified",
                Fault::ExtraElements => "extra_elements",
                Fault::BadLastModifiedHeader(_) => "bad_last_modified_header",
            };
            match fault {
                Fault::None => {}
                Fault::Status(_) => ctx.count("fault.status"),
                Fault::StatusLongBody(..) => ctx.count("fault.status_long_body"),
                Fault::SendError => ctx.count("fault.send_error"),
                Fault::BodyCut(_) => ctx.count("fault.body_cut"),
                Fault::XmlCut(_) => ctx.count("fault.xml_cut"),
                Fault::BadSize(_) => ctx.count("fault.bad_size"),
                Fault::BadLastModified(_) => ctx.count("fault.bad_last_modified"),
                Fault::ExtraElements => ctx.count("fault.extra_elements"),
                Fault::BadLastModifiedHeader(_) => ctx.count("fault.bad_last_modified_header"),
            }
            ctx.class.s(fname);
            ctx.ev("call", &[ci as u64], || format!("{:?} fault {:?}", call, fault));
            // exactly one request per call, on the right bucket
            if reqs.len() != 1 {
                ctx.violate("one-request-per-call", format!("{}", reqs.len().min(3)), format!("{:?} issued {} requests", call, reqs.len()));
                return;
            }
            let req = &reqs[0];
            match call {
                Call::ListFiles => {
                    ctx.count("call.list_files");
                    // max-keys is the caller's business (absent = S3's default of 1000)
                    let req_max = match &req.kind.without_delimiter() {
                        ReqKind::List { prefix, max_keys } if *prefix == archive_prefix && req.host == s3sim::ARCHIVE_HOST => max_keys.unwrap_or(1000).min(1000),
                        _ => {
                            ctx.violate("request-shape", "list_files".into(), format!("list_files({}, {}) requested {} (parsed {:?}), expected a list-type=2 listing of prefix {:?} on the archive bucket", site, date, req.url, req.kind, archive_prefix));
                            return;
                        }
                    };
                    let page_max = short.map(|m| m.min(req_max)).unwrap_or(req_max);
                    let under: Vec<&String> = ref_archive.keys().filter(|k| k.starts_with(&archive_prefix)).collect();
                    let r = res.0.unwrap();
                    ctx.class.u(under.len() as u64);
                    if !under.is_empty() {
                        ctx.nontrivial = true;
                    }
                    if under.len() == 1000 {
                        ctx.count("listing_1000");
                    }
                    if under.len() == 1001 {
                        ctx.count("listing_1001");
                    }
                    match fault {
                        Fault::None | Fault::ExtraElements | Fault::BadLastModified(_) => {
                            if under.len() > page_max {
                                ctx.count("truncated_archive_listing");
                                if short.is_some() {
                                    ctx.count("short_truncated_page");
                                }
                                match &r {
                                    Err(Error::AWS(AWSError::TruncatedListObjectsResponse)) => {}
                                    other => {
                                        ctx.violate("truncated-listing-is-error", "list_files".into(), format!("{} objects under the prefix (IsTruncated=true) but list_files returned {:?}", under.len(), other.as_ref().map(|v| v.len()).map_err(err_kind)));
                                        return;
                                    }
                                }
                            } else {
                                let want: Vec<String> = under.iter().map(|k| final_segment(k).to_string()).collect();
                                match &r {
                                    Ok(got) => {
                                        if *got != want {
                                            let at = got.iter().zip(want.iter()).position(|(a, b)| a != b);
                                            let slash = under.iter().any(|k| k[archive_prefix.len() + 1..].contains('/'));
                                            ctx.violate(
                                                "listing-faithful",
                                                if got.len() != want.len() { "count".into() } else if slash { "name-with-slash".into() } else { "name".into() },
                                                format!("list_files returned {} names, bucket holds {} under the prefix; first difference at {:?}: got {:?} want {:?} (key {:?})", got.len(), want.len(), at, at.map(|i| &got[i]), at.map(|i| &want[i]), at.map(|i| under[i])),
                                            );
                                            return;
                                        }
                                    }
                                    Err(e) => {
                                        ctx.violate("listing-spurious-error", err_kind(e), format!("list_files failed on a well-formed listing: {}", err_kind(e)));
                                        return;
                                    }
                                }
                            }
                        }
                        Fault::BadSize(s) => {
                            if !under.is_empty() && r.is_ok() {
                                ctx.violate("bad-size-is-error", "list_files".into(), format!("listing with Size {:?} returned Ok", s));
                                return;
                            }
                        }
                        Fault::SendError => {
                            if r.is_ok() {
                                ctx.violate("request-failure-is-error", "list_files".into(), "request failed but list_files returned Ok".into());
                                return;
                            }
                        }
                        _ => {
                            // status / xml cut: a value or an error, never a panic
                            if r.is_err() {
                                ctx.count("listing_fault_error");
                            } else {
                                ctx.count("listing_fault_value");
                            }
                        }
                    }
                    let _ = served;
                }
                Call::ListChunks(max) => {
                    ctx.count("call.list_chunks");
                    if *max > u32::MAX as usize {
                        ctx.count("max_keys_beyond_u32");
                    }
                    // extra listing parameters (e.g. a delimiter) are the caller's business: their
                    // effect on the result is judged by the listing oracle below
                    let want_req = ReqKind::List { prefix: rt_prefix.clone(), max_keys: Some(*max) };
                    if req.host != s3sim::REALTIME_HOST || req.kind.without_delimiter() != want_req {
                        ctx.violate("request-shape", "list_chunks_in_volume".into(), format!("list_chunks_in_volume({}, {}, {}) requested {} (parsed {:?})", site, volume, max, req.url, req.kind));
                        return;
                    }
                    let under: Vec<(&String, &Obj)> = ref_realtime.iter().filter(|(k, _)| k.starts_with(&rt_prefix)).take(short.map(|m| m.min(*max)).unwrap_or(*max)).collect();
                    let r = res.1.unwrap();
                    ctx.class.u(under.len() as u64);
                    if !under.is_empty() {
                        ctx.nontrivial = true;
                    }
                    match fault {
                        Fault::None | Fault::ExtraElements | Fault::BadLastModified(_) => {
                            match &r {
                                Ok(got) => {
                                    let want: Vec<(String, String, usize, Option<i64>)> = under
                                        .iter()
                                        .enumerate()
                                        .map(|(i, (k, o))| {
                                            let bad = match fault {
                                                Fault::BadLastModified(j) => !under.is_empty() && *j % under.len() == i,
                                                _ => false,
                                            };
                                            let lm = if bad { None } else { Some(o.stamp_ms) };
                                            (site.clone(), final_segment(k).to_string(), volume, lm)
                                        })
                                        .collect();
                                    if *got != want {
                                        let at = got.iter().zip(want.iter()).position(|(a, b)| a != b);
                                        ctx.violate(
                                            "listing-faithful",
                                            if got.len() != want.len() { "chunks-count".into() } else if at.map(|i| got[i].3 != want[i].3).unwrap_or(false) { "chunks-last-modified".into() } else { "chunks-name".into() },
                                            format!("list_chunks_in_volume returned {} identifiers, expected {}; first difference at {:?}: got {:?} want {:?}", got.len(), want.len(), at, at.map(|i| &got[i]), at.map(|i| &want[i])),
                                        );
                                        return;
                                    }
                                }
                                Err(e) => {
                                    ctx.violate("listing-spurious-error", err_kind(e), format!("list_chunks_in_volume failed on a well-formed listing: {}", err_kind(e)));
                                    return;
                                }
                            }
                        }
                        Fault::BadSize(s) => {
                            if !under.is_empty() && r.is_ok() {
                                ctx.violate("bad-size-is-error", "list_chunks".into(), format!("listing with Size {:?} returned Ok", s));
                                return;
                            }
                        }
                        Fault::SendError => {
                            if r.is_ok() {
                                ctx.violate("request-failure-is-error", "list_chunks".into(), "request failed but list_chunks_in_volume returned Ok".into());
                                return;
                            }
                        }
                        _ => {}
                    }
                }
                Call::DownloadFile(name, exists) => {
                    ctx.count("call.download_file");
                    let key = format!("{}/{}/{}", date_prefix, site, name);
                    let want_req = ReqKind::Get { key: key.clone() };
                    if req.host != s3sim::ARCHIVE_HOST || req.kind != want_req {
                        ctx.violate("request-shape", "download_file".into(), format!("download_file({:?}) requested {} (parsed {:?}), expected key {:?} on the archive bucket", name, req.url, req.kind, key));
                        return;
                    }
                    note_key_probes(ctx, name);
                    let r = res.2.unwrap();
                    ctx.class.s(name);
                    judge_download(ctx, "download_file", fault, *exists, ref_archive.get(&key), r.as_ref().map(|d| d.as_slice()).map_err(|e| e), None);
                    if ctx.failed() {
                        return;
                    }
                }
                Call::DownloadChunk(name, exists) => {
                    ctx.count("call.download_chunk");
                    let key = format!("{}/{}/{}", site, volume, name);
                    let want_req = ReqKind::Get { key: key.clone() };
                    if req.host != s3sim::REALTIME_HOST || req.kind != want_req {
                        ctx.violate("request-shape", "download_chunk".into(), format!("download_chunk({:?}) requested {} (parsed {:?}), expected key {:?} on the real-time bucket", name, req.url, req.kind, key));
                        return;
                    }
                    note_key_probes(ctx, name);
                    let r = res.3.unwrap();
                    ctx.class.s(name);
                    let obj = ref_realtime.get(&key);
                    match &r {
                        Ok((s, n, v, lm, data, is_start)) => {
                            judge_download(ctx, "download_chunk", fault, *exists, obj, Ok(data.as_slice()), Some(*lm));
                            if ctx.failed() {
                                return;
                            }
                            if s != &site || n != name || *v != volume {
                                ctx.violate("identifier-asked-for", "download_chunk".into(), format!("download_chunk returned identifier {}/{}/{} for {}/{}/{}", s, v, n, site, volume, name));
                                return;
                            }
                            if *is_start != data.starts_with(b"AR2") {
                                ctx.violate("chunk-variant", "download_chunk".into(), "start/intermediate variant does not match the payload".into());
                                return;
                            }
                        }
                        Err(e) => {
                            judge_download(ctx, "download_chunk", fault, *exists, obj, Err(e), None);
                            if ctx.failed() {
                                return;
                            }
                        }
                    }
                }
            }
        }
        if ctx.want_sample && ctx.nontrivial {
            ctx.sample = Some(json!({"site": site, "date": date.to_string(), "volume": volume, "objects": n_objects,
                "some_keys": ref_archive.keys().take(4).collect::<Vec<_>>(), "calls": calls.iter().map(|(c, f, s)| format!("{:?} / {:?} / short page {:?}", c, f, s)).collect::<Vec<_>>()}));
        }
        let _ = Utc.timestamp_millis_opt(0);
    }
}

fn note_key_probes(ctx: &mut Ctx, name: &str) {
    if name.chars().any(|c| "&<>\"'".contains(c)) {
        ctx.count("key_with_xml_special");
    }
    if !name.is_ascii() {
        ctx.count("key_with_non_ascii");
    }
    if name.contains('/') {
        ctx.count("key_with_slash_in_name");
    }
}

fn judge_download(ctx: &mut Ctx, what: &str, fault: &Fault, exists: bool, obj: Option<&Obj>, r: Result<&[u8], &Error>, lm: Option<Option<i64>>) {
    if obj.is_some() {
        ctx.nontrivial = true;
    }
    match fault {
        Fault::Status(s) | Fault::StatusLongBody(s, _) => {
            // any status other than 200 is an error; 404 is the not-found error
            match r {
                Ok(_) => ctx.violate("non-200-is-error", format!("{}:{}", what, s), format!("{} returned Ok on HTTP {}", what, s)),
                Err(e) => {
                    if *s == 404 && err_kind(e) != "NotFound" {
                        ctx.violate("missing-is-not-found", what.into(), format!("{} on HTTP 404 returned {}", what, err_kind(e)));
                    }
                }
            }
        }
        Fault::SendError => {
            if r.is_ok() {
                ctx.violate("request-failure-is-error", what.into(), format!("request failed but {} returned Ok", what));
            }
        }
        Fault::BodyCut(k) => {
            if exists {
                if let Ok(d) = r {
                    ctx.violate("cut-body-is-error", what.into(), format!("connection cut after {} body bytes but {} returned {} bytes as success", k, what, d.len()));
                }
            }
        }
        _ => {
            if !exists {
                ctx.count("not_found_download");
                match r {
                    Err(e) if err_kind(e) == "NotFound" => {}
                    other => ctx.violate("missing-is-not-found", what.into(), format!("{} of a missing object returned {:?}", what, other.map(|d| d.len()).map_err(err_kind))),
                }
                return;
            }
            let o = match obj {
                Some(o) => o,
                None => return,
            };
            match r {
                Ok(d) => {
                    if d != o.data.as_slice() {
                        ctx.violate("bytes-unchanged", what.into(), format!("{} returned {} bytes, the object has {} (or content differs)", what, d.len(), o.data.len()));
                        return;
                    }
                    if let Some(lm) = lm {
                        let want = match fault {
                            Fault::BadLastModifiedHeader(_) => None,
                            _ => Some(o.stamp_ms),
                        };
                        if lm != want {
                            ctx.violate("last-modified", what.into(), format!("{} reports upload time {:?}, the object's Last-Modified is {:?}", what, lm, want));
                        }
                    }
                }
                Err(e) => {
                    // download_chunk legitimately rejects payloads that are neither AR2 nor BZ; ours are chunk-like
                    ctx.violate("download-spurious-error", format!("{}:{}", what, err_kind(e)), format!("{} of an existing object failed: {}", what, err_kind(e)));
                }
            }
        }
    }
}
