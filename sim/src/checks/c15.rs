//! C15 - latest-volume discovery against a simulated rotating bucket.

use crate::ctx::{Ctx, Params, Tier};
use crate::driver::{Check, Section};
use crate::s3sim::{self, Backend, Core, ListedObject, NetPlan, Reply, ReqKind, Request};
use crate::tape::Tape;
use chrono::{DateTime, TimeZone, Utc};
use nexrad_data::aws::realtime::{get_latest_volume, list_chunks_in_volume, VolumeIndex};
use serde_json::json;
use std::cell::Cell;
use std::rc::Rc;

pub struct C15;

/// A bucket shape: `n` directories, newest at `p` (1-based), `c` populated directories forming a
/// contiguous run in rotation order that ends at `p`.
#[derive(Clone, Copy, Debug)]
pub struct Shape {
    pub n: usize,
    pub p: usize,
    pub c: usize,
}

impl Shape {
    /// Age of directory `v` (0 = newest) when populated.
    pub fn age(&self, v: usize) -> Option<usize> {
        if v < 1 || v > self.n || self.c == 0 {
            return None;
        }
        let age = (self.p + self.n - v) % self.n;
        if age < self.c {
            Some(age)
        } else {
            None
        }
    }
}

#[derive(Clone, Debug)]
pub struct SiteShape {
    pub site: String,
    pub shape: Shape,
    /// first-chunk upload time of the newest directory (ms); older ones are earlier.
    pub newest_ms: i64,
    /// seconds between the starts of consecutive volumes (>= 1).
    pub gap_s: i64,
    pub jitter_seed: u64,
    pub fraction: bool,
    /// a sixth of the populated directories lack their first chunks
    pub missing_starts: bool,
    /// The time in a chunk's *name* is the radar's clock, not the bucket's: it may be ahead of or
    /// behind the upload time, and it may have been corrected between two volumes (directories of
    /// age >= `name_step_age` carry an extra `name_step_ms`). Discovery is defined by upload times.
    pub name_skew_ms: i64,
    pub name_step_age: usize,
    pub name_step_ms: i64,
}

impl SiteShape {
    pub fn name_start_ms(&self, age: usize) -> i64 {
        self.first_chunk_ms(age) + self.name_skew_ms + if age >= self.name_step_age { self.name_step_ms } else { 0 }
    }
    pub fn first_chunk_ms(&self, age: usize) -> i64 {
        // strictly increasing along the rotation, whole seconds (S3's resolution)
        self.newest_ms - (age as i64) * self.gap_s * 1000
    }
    fn chunk_count(&self, v: usize) -> usize {
        1 + (crate::rng::mix(&[self.jitter_seed, 77, v as u64]) % 55) as usize
    }
    /// Sequence of the first chunk present: a populated directory need not hold its chunk 1
    /// (partly expired, or its first upload was lost); such a directory is still populated.
    fn first_seq(&self, v: usize) -> usize {
        if self.missing_starts && crate::rng::mix(&[self.jitter_seed, 91, v as u64]) % 6 == 0 {
            let k = self.chunk_count(v);
            1 + (crate::rng::mix(&[self.jitter_seed, 92, v as u64]) % k as u64) as usize
        } else {
            1
        }
    }
}

pub struct ShapeBucket {
    pub sites: Vec<SiteShape>,
    /// request failure rate (num, den) and HTTP error status rate per listing
    pub fail_rate: (u64, u64),
    pub status_rate: (u64, u64),
    pub latency_max_ms: u64,
    pub faults_left: u64,
    /// a listing body that arrives complete, but whose second half comes this many ms after the first
    pub stall_ms: u64,
}

pub fn chunk_name(volume_start_ms: i64, seq: usize) -> String {
    let dt: DateTime<Utc> = Utc
        .timestamp_millis_opt(volume_start_ms)
        .single()
        .unwrap_or(DateTime::<Utc>::MIN_UTC);
    let t = match seq {
        1 => "S",
        55 => "E",
        _ => "I",
    };
    format!("{}-{:03}-{}", dt.format("%Y%m%d-%H%M%S"), seq, t)
}

impl Backend for ShapeBucket {
    fn on_request(&mut self, core: &mut Core, _req: &Request) -> NetPlan {
        let mut plan = NetPlan::default();
        if self.latency_max_ms > 0 {
            plan.up_ms = core.tape.draw(self.latency_max_ms + 1);
            plan.down_ms = core.tape.draw(self.latency_max_ms + 1);
            core.ctx.count("fault.latency");
        }
        if self.stall_ms > 0 && core.tape.draw(12) == 11 {
            // complete and well-formed, just slow: two frames, the second one late
            plan.body = s3sim::BodyPlan { cut_at: None, frame: 200, frame_delay_ms: self.stall_ms, empty_frame_every: 0 };
            core.ctx.count("fault.stalled_body");
        }
        plan
    }

    fn serve(&mut self, core: &mut Core, req: &Request) -> Reply {
        if self.fail_rate.0 > 0 && self.faults_left > 0 && core.tape.chance(self.fail_rate.0, self.fail_rate.1) {
            self.faults_left -= 1;
            core.ctx.count("fault.request_failed");
            core.ctx.ev("fault", &[req.seq], || "request could not be sent".into());
            return Reply::SendError;
        }
        if self.status_rate.0 > 0 && self.faults_left > 0 && core.tape.chance(self.status_rate.0, self.status_rate.1) {
            self.faults_left -= 1;
            let status = [404u16, 500, 503, 403][core.tape.draw(4) as usize];
            core.ctx.count("fault.error_status");
            core.ctx.ev("fault", &[req.seq, status as u64], || format!("HTTP {} on {}", status, req.url));
            return s3sim::status_reply(status, None);
        }
        let kind = req.kind.without_delimiter();
        match &kind {
            ReqKind::List { prefix, max_keys } if req.host == s3sim::REALTIME_HOST => {
                let max = max_keys.unwrap_or(1000);
                let mut objects = Vec::new();
                let mut truncated = false;
                // S3 matches plain string prefixes over keys in byte order; sites sort by name
                let mut sites: Vec<&SiteShape> = self.sites.iter().collect();
                sites.sort_by(|a, b| a.site.cmp(&b.site));
                'all: for ss in sites {
                    for v in s3sim::matching_dirs(&ss.site, prefix) {
                        if let Some(age) = ss.shape.age(v) {
                            let start = ss.first_chunk_ms(age);
                            let name_start = ss.name_start_ms(age);
                            let k = ss.chunk_count(v);
                            for i in ss.first_seq(v)..=k {
                                let key = format!("{}/{}/{}", ss.site, v, chunk_name(name_start, i));
                                if !key.starts_with(prefix.as_str()) {
                                    continue;
                                }
                                if objects.len() == max {
                                    truncated = true;
                                    break 'all;
                                }
                                objects.push(ListedObject {
                                    key,
                                    last_modified: s3sim::rfc3339_ms(start + (i as i64 - 1) * 5000, ss.fraction),
                                    size: (10_000 + i * 13).to_string(),
                                });
                            }
                        }
                    }
                }
                Reply::Text {
                    status: 200,
                    body: s3sim::list_xml("unidata-nexrad-level2-chunks", prefix, max, &objects, truncated, false),
                }
            }
            ReqKind::Get { key } => s3sim::status_reply(404, Some(key)),
            _ => s3sim::status_reply(403, None),
        }
    }
}

fn ceil_log2(n: usize) -> usize {
    let mut k = 0;
    while (1usize << k) < n {
        k += 1;
    }
    k
}

fn small_shape(mut index: u64, max_n: usize) -> Shape {
    for n in 1..=max_n {
        let cnt = (n * (n + 1)) as u64;
        if index < cnt {
            let p = (index / (n as u64 + 1)) as usize + 1;
            let c = (index % (n as u64 + 1)) as usize;
            return Shape { n, p, c };
        }
        index -= cnt;
    }
    Shape { n: 1, p: 1, c: 0 }
}

fn small_total(max_n: usize) -> u64 {
    (1..=max_n).map(|n| (n * (n + 1)) as u64).sum()
}

const SITES: [&str; 7] = ["KDMX", "KTLX", "PHWA", "TJUA", "DAN1", "FOP1", "ROP4"];

impl Check for C15 {
    fn id(&self) -> &'static str {
        "C15"
    }
    fn level(&self) -> &'static str {
        "exploration"
    }
    fn engine(&self) -> &'static str {
        "s3sim"
    }
    fn plan(&self, tier: Tier) -> Vec<Section> {
        match tier {
            Tier::Quick => vec![
                Section { name: "all-shapes-sizes-1..=24", runs: small_total(24) },
                Section { name: "production-size-seeded", runs: 30_000 },
                Section { name: "production-size-faults", runs: 6_000 },
                Section { name: "concurrent-discoveries", runs: 1_200 },
            ],
            Tier::Thorough => vec![
                Section { name: "all-shapes-sizes-1..=64", runs: small_total(64) },
                Section { name: "production-size-all-shapes", runs: 999 * 1000 },
                Section { name: "production-size-faults", runs: 120_000 },
                Section { name: "concurrent-discoveries", runs: 60_000 },
            ],
        }
    }
    fn rule(&self) -> &'static str {
        "a case is a bucket shape (directory count N, newest position p, populated count c, contiguous run ending at p, strictly increasing first-chunk times along the rotation, 1..55 chunks per directory) served by the simulated S3 endpoint to the real get_latest_volume (N=999) or to the guarded search wrapper with the same listing closure (N<=64); section 1 enumerates (thorough) or samples with bias to p in {1,2,998,999} and c in {0,1,2,998,999} (quick); the fault section adds request failures, HTTP 404/500/503/403 on listings and latency (result must be the right volume or an error); the last section runs two or three discoveries for different sites concurrently on one runtime (each must report its own requests); the client clock is offset by up to +-300 s in a random half of the runs (discovery must not depend on it). Non-trivial = at least one populated directory; distinct = distinct (N,p,c,fault-pattern) hash"
    }
    fn assumptions(&self) -> Vec<&'static str> {
        vec![
            "the HTTP client below reqwest::get (TLS, TCP, connection pool) and S3 itself are replaced by the in-process endpoint; responses are built as real reqwest::Response values",
            "first-chunk upload times of populated directories are distinct (>= 1 s apart), as the statement's 'uploaded most recently' requires",
            "uploads during the search are not part of this property (a bucket state); they are exercised by C18's start-up window",
        ]
    }
    fn components(&self) -> serde_json::Value {
        json!({"real": ["get_latest_volume", "search (via get_latest_volume and via verif::search)", "list_chunks_in_volume", "s3::list_objects (URL construction, reqwest::Response::text, xml parsing)", "ChunkIdentifier", "VolumeIndex"],
               "stub": ["reqwest client + TLS + TCP + S3 (in-process endpoint behind the reqwest::get seam)"]})
    }
    fn exhaustive_note(&self, tier: Tier) -> Option<&'static str> {
        match tier {
            Tier::Quick => None,
            Tier::Thorough => Some("sections 0 and 1 enumerate every (N,p,c) shape for N in 1..=64 and for N=999 (999 x 1000 runs, the 999 empty shapes coincide: 998,002 distinct); the fault section is sampled"),
        }
    }
    fn budget_s(&self, tier: Tier) -> u64 {
        match tier {
            Tier::Quick => 100,
            Tier::Thorough => 1500,
        }
    }

    fn run(&self, p: &Params, tape: &mut Tape, ctx: &mut Ctx) {
        // ---- the case(s): one discovery, or several concurrent ones (section 3)
        let concurrent = p.section == 3;
        let faults = p.section == 2;
        let draw_production = |tape: &mut Tape| -> Shape {
            // seeded production-size shape, biased to the edges
            let pp = match tape.weighted(&[4, 1, 1, 1, 1, 1]) {
                0 => tape.range(1, 999) as usize,
                1 => 1,
                2 => 2,
                3 => 998,
                4 => 999,
                _ => tape.range(990, 999) as usize,
            };
            let cc = match tape.weighted(&[4, 1, 1, 1, 1, 1, 1]) {
                0 => tape.range(0, 999) as usize,
                1 => 0,
                2 => 1,
                3 => 2,
                4 => 998,
                5 => 999,
                _ => tape.range(1, 12) as usize,
            };
            Shape { n: 999, p: pp, c: cc }
        };
        let first_shape = match (p.tier, p.section) {
            (Tier::Quick, 0) => small_shape(p.index, 24),
            (Tier::Thorough, 0) => small_shape(p.index, 64),
            (Tier::Thorough, 1) => Shape { n: 999, p: (p.index / 1000) as usize + 1, c: (p.index % 1000) as usize },
            _ => draw_production(tape),
        };
        // When the newest upload happened: shortly before the simulation's epoch, or around a moment
        // at which local calendars do something unusual (the DST changes of the `tz` variant's zone,
        // the turn of the year, a leap day). The client's clock follows (plus its own offset).
        const ANCHORS: [(i64, &str); 5] = [
            (0, ""),
            (1_730_613_600_000, "uploads_straddle_dst_end"),   // 2024-11-03 06:00 UTC = 02:00 EDT -> 01:00 EST
            (1_710_054_000_000, "uploads_straddle_dst_start"), // 2024-03-10 07:00 UTC = 02:00 EST -> 03:00 EDT
            (1_735_689_600_000, "uploads_straddle_new_year"),  // 2025-01-01 00:00 UTC
            (1_709_251_200_000, "uploads_straddle_leap_day"),  // 2024-03-01 00:00 UTC
        ];
        let anchor = match tape.weighted(&[5, 2, 1, 1, 1]) {
            0 => 0usize,
            k => k,
        };
        let anchor_shift_ms: i64 = if anchor == 0 {
            0
        } else {
            ctx.count(ANCHORS[anchor].1);
            // the newest upload falls 0..2 h after the moment
            ANCHORS[anchor].0 + 1000 * tape.draw(7200) as i64 - s3sim::EPOCH_MS
        };
        let nsites = if concurrent { 2 + tape.draw(2) as usize } else { 1 };
        let first_site = tape.draw(SITES.len() as u64) as usize;
        let mut sites: Vec<SiteShape> = Vec::new();
        for k in 0..nsites {
            let shape = if k == 0 { first_shape } else { draw_production(tape) };
            let missing_starts = tape.draw(3) == 2;
            sites.push(SiteShape {
                site: SITES[(first_site + k) % SITES.len()].to_string(),
                shape,
                // the newest upload is 1..120 s old
                newest_ms: s3sim::EPOCH_MS + anchor_shift_ms - 1000 * (1 + tape.draw(120) as i64),
                // volumes start >= 1 s apart; when first chunks may be missing, further apart than a
                // whole volume lasts, so that "first listed chunk" still orders the directories
                gap_s: if missing_starts { 300 + tape.draw(600) as i64 } else { 1 + tape.draw(600) as i64 },
                jitter_seed: tape.seed(),
                fraction: tape.draw(2) == 1,
                missing_starts,
                name_skew_ms: match tape.weighted(&[4, 1, 1, 1]) {
                    0 => 0,
                    1 => 1000 * (1 + tape.draw(120) as i64),
                    2 => -1000 * (1 + tape.draw(120) as i64),
                    _ => 1000 * (tape.draw(1800) as i64 - 900),
                },
                name_step_age: match tape.weighted(&[2, 2, 1]) {
                    0 => usize::MAX,
                    1 => 1 + tape.draw(3) as usize,
                    _ => 1 + tape.draw(998) as usize,
                },
                name_step_ms: 1000 * (tape.draw(1800) as i64 - 900),
            });
        }
        let (fail_rate, status_rate, mut latency_max_ms, budget) = if faults {
            ((tape.draw(3), 150), (tape.draw(3), 150), [0u64, 700, 1400, 20_000][tape.draw(4) as usize], 1 + tape.draw(3))
        } else {
            ((0, 1), (0, 1), 0, 0)
        };
        let stall_ms = if faults && tape.draw(3) == 2 { [6_000u64, 35_000, 90_000][tape.draw(3) as usize] } else { 0 };
        if concurrent {
            // latency makes the discoveries interleave at their await points
            latency_max_ms = 1 + tape.draw(300);
        }
        // the client's clock may be off in either direction: discovery must not depend on it
        let skew_ms: i64 = match tape.weighted(&[2, 1, 1]) {
            0 => 0,
            1 => -(tape.draw(300_000) as i64),
            _ => tape.draw(300_000) as i64,
        };
        if skew_ms < 0 {
            ctx.count("client_clock_behind");
        }
        let skew_ms = skew_ms + anchor_shift_ms;

        let sites2 = sites.clone();
        let small_n = first_shape.n;
        let results: Vec<(Result<(Option<usize>, usize), String>, usize)> = s3sim::with_world(
            tape,
            ctx,
            |core| {
                core.skew_before_ms = skew_ms;
                core.skew_after_ms = skew_ms;
                ShapeBucket { sites: sites2, fail_rate, status_rate, latency_max_ms, faults_left: budget, stall_ms }
            },
            |world, rt| {
                let rs: Vec<Result<(Option<usize>, usize), String>> = rt.block_on(async {
                    let one = |ss: SiteShape| async move {
                        if ss.shape.n == 999 {
                            match get_latest_volume(&ss.site).await {
                                Ok(r) => Ok((r.volume.map(|v| v.as_number()), r.calls)),
                                Err(e) => Err(format!("{:?}", e)),
                            }
                        } else {
                            let calls = Rc::new(Cell::new(0usize));
                            let c2 = calls.clone();
                            let site_ref: &str = &ss.site;
                            let r = nexrad_data::verif::search(ss.shape.n, DateTime::<Utc>::MAX_UTC, move |i| {
                                c2.set(c2.get() + 1);
                                async move {
                                    let chunks = list_chunks_in_volume(site_ref, VolumeIndex::new(i + 1), 1).await?;
                                    Ok(chunks.first().and_then(|c| c.date_time()))
                                }
                            })
                            .await;
                            match r {
                                Ok(v) => Ok((v.map(|i| i + 1), calls.get())),
                                Err(e) => Err(format!("{:?}", e)),
                            }
                        }
                    };
                    match sites.len() {
                        1 => vec![one(sites[0].clone()).await],
                        2 => {
                            let (a, b) = tokio::join!(one(sites[0].clone()), one(sites[1].clone()));
                            vec![a, b]
                        }
                        _ => {
                            let (a, b, c) = tokio::join!(one(sites[0].clone()), one(sites[1].clone()), one(sites[2].clone()));
                            vec![a, b, c]
                        }
                    }
                });
                let w = world.borrow();
                rs.into_iter()
                    .zip(sites.iter())
                    .map(|(r, ss)| {
                        let pre = format!("{}/", ss.site);
                        let listed = w
                            .core
                            .log
                            .iter()
                            .filter(|q| matches!(&q.kind, ReqKind::List { prefix, .. } if prefix.starts_with(&pre)))
                            .count();
                        (r, listed)
                    })
                    .collect()
            },
        );
        let _ = small_n;

        // ---- oracle, per discovery
        let injected = ctx.counters.get("fault.request_failed").copied().unwrap_or(0) + ctx.counters.get("fault.error_status").copied().unwrap_or(0);
        if concurrent {
            ctx.count("concurrent_discoveries");
        }
        for ((result, listed), ss) in results.iter().zip(sites.iter()) {
            let shape = ss.shape;
            let expected = if shape.c > 0 { Some(shape.p) } else { None };
            let locus = format!("n={} p={} c={}", shape.n, shape.p, shape.c);
            ctx.class.u(shape.n as u64);
            ctx.class.u(shape.p as u64);
            ctx.class.u(shape.c as u64);
            ctx.class.u(injected);
            if shape.c > 0 {
                ctx.nontrivial = true;
            }
            match result {
                Ok((vol, calls)) => {
                    if *vol != expected {
                        ctx.violate(
                            "latest-volume",
                            if faults { format!("faults {}", locus) } else if concurrent { format!("concurrent {}", locus) } else { locus.clone() },
                            format!("site {} bucket shape {}: newest populated directory is {:?}, discovery returned {:?} after {} listings ({} faults injected, client clock offset {} ms)", ss.site, locus, expected, vol, listed, injected, skew_ms),
                        );
                    }
                    if *calls != *listed {
                        ctx.violate(
                            "call-count-faithful",
                            if concurrent { format!("concurrent {}", locus) } else { locus.clone() },
                            format!("site {} shape {}: reported {} calls, the endpoint received {} listing requests for this site ({} discoveries ran concurrently)", ss.site, locus, calls, listed, sites.len()),
                        );
                    }
                    let bound = shape.n + 2 * ceil_log2(shape.n) + 4;
                    if *calls > bound {
                        ctx.violate(
                            "call-count-bound",
                            locus.clone(),
                            format!("shape {}: {} calls exceed N + 2*ceil(log2 N) + 4 = {}", locus, calls, bound),
                        );
                    }
                    if expected == Some(999) {
                        ctx.count("newest_is_999");
                    }
                    if shape.c == shape.n {
                        ctx.count("all_populated");
                    }
                    if shape.c == 0 {
                        ctx.count("all_empty");
                    }
                    if shape.c > 0 && shape.p < shape.c {
                        ctx.count("run_wraps_around");
                    }
                }
                Err(e) => {
                    if injected == 0 {
                        ctx.violate(
                            "no-spurious-error",
                            locus.clone(),
                            format!("shape {}: discovery failed without any injected fault: {}", locus, e),
                        );
                    } else {
                        ctx.count("error_after_fault");
                    }
                }
            }
        }
        if ctx.want_sample && ctx.nontrivial {
            ctx.sample = Some(json!({"discoveries": sites.iter().zip(results.iter()).map(|(ss, (r, listed))| json!({
                "site": ss.site, "shape": {"n": ss.shape.n, "newest": ss.shape.p, "populated": ss.shape.c}, "volume_gap_s": ss.gap_s,
                "result": format!("{:?}", r), "listing_requests": listed})).collect::<Vec<_>>(),
                "concurrent": concurrent, "faults_injected": injected, "client_clock_offset_ms": skew_ms}));
        }
    }
}
