//! C03 - message framing: N messages in, N messages out, served through the simulated device.

use crate::ctx::{Ctx, Params, Tier};
use crate::driver::{Check, Section};
use crate::icd::HEADER;
use crate::streamsim::{ReaderPlan, SimReader};
use crate::tape::Tape;
use crate::workload::{build_stream, Stream, StreamOpts};
use nexrad_data::volume::Record;
use nexrad_decode::messages::{decode_messages, Message, MessageContents};
use serde_json::json;

pub struct C03;

fn kind_of(m: &Message) -> &'static str {
    match m.contents() {
        MessageContents::RDAStatusData(_) => "status",
        MessageContents::DigitalRadarData(_) => "radial",
        MessageContents::ClutterFilterMap(_) => "clutter",
        MessageContents::VolumeCoveragePattern(_) => "vcp",
        MessageContents::Other => "other",
    }
}

fn expected_kind(mtype: u8) -> &'static str {
    match mtype {
        31 => "radial",
        2 => "status",
        5 => "vcp",
        _ => "other",
    }
}

/// Checks a successfully decoded list against the first `k` reference messages.
fn check_against_reference(ctx: &mut Ctx, s: &Stream, got: &[Message], k: usize, what: &str) {
    if got.len() != k {
        ctx.violate(
            "count",
            format!("{}:{}", what, if got.len() < k { "fewer" } else { "more" }),
            format!("{}: {} messages encoded, {} decoded", what, k, got.len()),
        );
        return;
    }
    for (i, (m, r)) in got.iter().zip(s.msgs.iter()).enumerate() {
        let h = m.header();
        if h.sequence_number != r.seq || h.message_type != r.mtype || h.date != r.date || h.time != r.time_ms {
            ctx.violate(
                "order-and-header",
                format!("{}:type{}", what, r.mtype),
                format!(
                    "{}: message {} should be type {} seq {} date {} time {}, decoded header says type {} seq {} date {} time {}",
                    what, i, r.mtype, r.seq, r.date, r.time_ms, h.message_type, h.sequence_number, h.date, h.time
                ),
            );
            return;
        }
        let ek = expected_kind(r.mtype);
        // type 15 is the one fixed-frame type for which the crate ships a decoder that the stream
        // decoder does not call yet; wiring it in would be legal ("types without a dedicated decoder")
        let clutter_ok = r.mtype == 15 && kind_of(m) == "clutter";
        if kind_of(m) != ek && !clutter_ok {
            ctx.violate(
                "contents-kind",
                format!("{}:type{}", what, r.mtype),
                format!("{}: message {} of type {} surfaced as {:?}, expected {:?}", what, i, r.mtype, kind_of(m), ek),
            );
            return;
        }
        match (m.contents(), &r.t31) {
            (MessageContents::DigitalRadarData(d), Some(t)) => {
                if d.header.azimuth_number != t.azimuth_number || d.header.elevation_number != t.elevation_number {
                    ctx.violate(
                        "contents",
                        format!("{}:radial-header", what),
                        format!("{}: message {} radial header azimuth/elevation number {} / {} differ from encoded {} / {}",
                            what, i, d.header.azimuth_number, d.header.elevation_number, t.azimuth_number, t.elevation_number),
                    );
                    return;
                }
            }
            (MessageContents::VolumeCoveragePattern(v), _) => {
                if Some(v.elevations.len()) != r.vcp_cuts {
                    ctx.violate(
                        "contents",
                        format!("{}:vcp-cuts", what),
                        format!("{}: message {} VCP has {} cuts, encoded {:?}", what, i, v.elevations.len(), r.vcp_cuts),
                    );
                    return;
                }
            }
            _ => {}
        }
    }
}

fn decode_via(image: &[u8], plan: ReaderPlan, seed: u64, ctx: &mut Ctx) -> (Result<Vec<Message>, String>, u64, bool) {
    decode_from(image, 0, plan, seed, ctx)
}

/// Decodes from a reader that has already been advanced to `start` (a stream embedded after a prefix).
fn decode_from(image: &[u8], start: usize, plan: ReaderPlan, seed: u64, ctx: &mut Ctx) -> (Result<Vec<Message>, String>, u64, bool) {
    decode_from_base(image, 0, start, plan, seed, ctx)
}

/// The image sits at logical offset `base` of a larger stream (e.g. beyond 4 GiB in a
/// concatenated archive); the reader is positioned `start` bytes into it.
fn decode_from_base(image: &[u8], base: u64, start: usize, plan: ReaderPlan, seed: u64, ctx: &mut Ctx) -> (Result<Vec<Message>, String>, u64, bool) {
    use std::io::{Seek, SeekFrom};
    let mut rd = SimReader::new(image, plan, seed, ctx.trace_on).at_offset(base);
    if start > 0 {
        let _ = rd.seek(SeekFrom::Start(base + start as u64));
    }
    let r = decode_messages(&mut rd).map_err(|e| format!("{:?}", e));
    rd.account(ctx);
    ctx.evaluations += 1;
    let tripped = rd.tripped.is_some();
    // a decoder that seeks before the stream's start leaves a "negative" position: report it as u64::MAX
    let rel = rd.position_in_image();
    (r, if rel < 0 { u64::MAX } else { rel as u64 }, tripped)
}

impl Check for C03 {
    fn id(&self) -> &'static str {
        "C03"
    }
    fn level(&self) -> &'static str {
        "fault_enumeration"
    }
    fn engine(&self) -> &'static str {
        "streamsim"
    }
    fn plan(&self, tier: Tier) -> Vec<Section> {
        match tier {
            Tier::Quick => vec![
                Section { name: "small-streams-every-cut", runs: 6_000 },
                Section { name: "large-streams-sampled-cuts", runs: 1_800 },
            ],
            Tier::Thorough => vec![
                Section { name: "small-streams-every-cut", runs: 300_000 },
                Section { name: "large-streams-sampled-cuts", runs: 90_000 },
            ],
        }
    }
    fn rule(&self) -> &'static str {
        "a case is a message stream built by the reference encoders (0..300 messages over all 256 type codes, type-31 messages with any block subset/order, permuted pointer tables over a contiguous layout, 8/16-bit gates, unique sequence numbers) served by the simulated device in three batches: clean; short reads + EINTR (must give the identical list); end of file at byte t for every t (small streams) or at every boundary -1/0/+1/+27/+28/+29 plus drawn offsets (large streams), each compared with the reference record (Ok(first k) at a boundary or inside the first 27 header bytes, Err inside a body). evaluations = decode calls. Non-trivial = stream with >= 2 messages including a type-31 and a fixed frame; distinct = hash of the type/shape sequence"
    }
    fn assumptions(&self) -> Vec<&'static str> {
        vec![
            "the reference encoders follow ICD 2620002W framing: 12-byte CTM + 16-byte header, 2432-byte frames for fixed types, type 31 = 32-byte data header + pointer table + blocks",
            "hard I/O errors are not injected here: the statement speaks about cuts only",
            "float fields are finite so that message equality (==) is meaningful",
        ]
    }
    fn components(&self) -> serde_json::Value {
        json!({"real": ["nexrad_decode::messages::decode_messages", "decode_message_header", "decode_message_contents", "decode_digital_radar_data", "decode_rda_status_message", "decode_volume_coverage_pattern", "nexrad_data::volume::Record::messages"],
               "stub": ["the storage device behind Read+Seek (SimReader with Cursor seek semantics)"]})
    }
    fn required_probes(&self, _tier: Tier) -> Vec<&'static str> {
        vec!["cut_inside_header", "cut_inside_body", "cut_on_boundary", "fault.eintr", "fault.short_read", "permuted_pointer_message", "embedded_after_prefix", "leading_bytes_look_like_size_prefix", "segmented_message_frames", "stream_at_huge_offset", "total_length_is_frame_multiple"]
    }
    fn budget_s(&self, tier: Tier) -> u64 {
        match tier {
            Tier::Quick => 100,
            Tier::Thorough => 1500,
        }
    }

    fn run(&self, p: &Params, tape: &mut Tape, ctx: &mut Ctx) {
        crate::icd::ALLOW_NON_FINITE.with(|a| a.set(false));
        let small = p.section == 0;
        let opts = StreamOpts {
            max_msgs: if small { 5 } else { 300 },
            permute_pointers: true,
            gaps: false,
            max_gates: if small { 40 } else { 1840 },
            t31_percent: if small { 70 } else { 55 },
            extreme_halfwords: 0,
        };
        let mut s = build_stream(tape, &opts);
        // the 12 bytes in front of every header are opaque; make the first four look like an LDM
        // size prefix for exactly this stream now and then (a record wrapper must not be fooled)
        if s.bytes.len() >= 28 && tape.draw(8) == 7 {
            let v = (s.bytes.len() as i32 - 4) * if tape.draw(2) == 0 { 1 } else { -1 };
            s.bytes[0..4].copy_from_slice(&v.to_be_bytes());
            ctx.count("leading_bytes_look_like_size_prefix");
        }
        if s.segment_groups > 0 {
            ctx.count("segmented_message_frames");
        }
        // total lengths that are exact multiples of the frame size although the stream holds
        // variable-length messages - among them the 134 frames' worth of a metadata record
        if !small && tape.draw(10) == 9 {
            let frames = if tape.draw(2) == 0 { Some(134) } else { None };
            crate::workload::pad_to_frame_multiple(&mut s, tape, frames);
            ctx.count("total_length_is_frame_multiple");
        }
        let n = s.msgs.len();
        let has31 = s.msgs.iter().any(|m| m.mtype == 31);
        let hasfix = s.msgs.iter().any(|m| m.mtype != 31);
        ctx.nontrivial = n >= 2 && has31 && hasfix;
        for m in &s.msgs {
            if s.bytes[m.off + 12] == 0xFF && s.bytes[m.off + 13] == 0xFF {
                ctx.count("variable_length_marker_in_header");
            }
            ctx.class.u(m.mtype as u64);
            ctx.class.u(m.len as u64);
            if let Some(t) = &m.t31 {
                for b in &t.blocks {
                    ctx.class.s(b.name);
                }
                let offs: Vec<usize> = t.blocks.iter().map(|b| b.off).collect();
                if offs.windows(2).any(|w| w[0] > w[1]) {
                    ctx.count("permuted_pointer_message");
                }
            }
        }
        ctx.ev("stream", &[n as u64, s.bytes.len() as u64], || {
            format!("{} messages, {} bytes, types {:?}", n, s.bytes.len(), s.msgs.iter().map(|m| m.mtype).collect::<Vec<_>>())
        });

        // ---- batch 1: clean device
        let (clean, pos, tripped) = decode_via(&s.bytes, ReaderPlan::clean(), 0, ctx);
        if tripped {
            ctx.violate("terminates", "clean".into(), "operation budget exceeded on a well-formed stream".into());
            return;
        }
        let clean = match clean {
            Ok(v) => v,
            Err(e) => {
                ctx.violate("clean-decodes", "error".into(), format!("well-formed stream of {} messages failed to decode: {}", n, e));
                return;
            }
        };
        check_against_reference(ctx, &s, &clean, n, "clean");
        if ctx.failed() {
            return;
        }
        if pos != s.bytes.len() as u64 {
            // the reader may sit anywhere after the last message only if nothing follows; for a
            // well-formed stream it must have consumed everything
            ctx.violate("reader-position", "clean".into(), format!("after decoding {} messages the reader is at {} of {}", n, pos, s.bytes.len()));
            return;
        }
        // each element equals the same message decoded alone
        for (i, r) in s.msgs.iter().enumerate() {
            let (alone, _, _) = decode_via(&s.bytes[r.off..r.off + r.len], ReaderPlan::clean(), 0, ctx);
            match alone {
                Ok(v) if v.len() == 1 => {
                    if v[0] != clean[i] {
                        ctx.violate("same-as-alone", format!("type{}", r.mtype), format!("message {} (type {}) decodes differently inside the stream than alone", i, r.mtype));
                        return;
                    }
                }
                other => {
                    ctx.violate("same-as-alone", format!("type{}", r.mtype), format!("message {} (type {}) alone decodes to {:?} messages", i, r.mtype, other.map(|v| v.len())));
                    return;
                }
            }
        }
        // the same stream through the data crate's record API
        if !s.bytes.is_empty() {
            match Record::new(s.bytes.clone()).messages() {
                Ok(v) => {
                    if v != clean {
                        ctx.violate("record-messages", "differs".into(), "Record::messages differs from decode_messages on the same bytes".into());
                        return;
                    }
                }
                Err(e) => {
                    ctx.violate("record-messages", "error".into(), format!("Record::messages failed on a well-formed stream: {:?}", e));
                    return;
                }
            }
            ctx.evaluations += 1;
        }

        // ---- batch 1b: the same stream embedded after a prefix, reader already advanced
        if tape.draw(3) == 2 {
            let plen = 1 + tape.draw(200) as usize;
            let mut image = tape.bytes(plen);
            image.extend_from_slice(&s.bytes);
            ctx.count("embedded_after_prefix");
            let (r, pos, tripped) = decode_from(&image, plen, ReaderPlan::clean(), 0, ctx);
            if tripped {
                ctx.violate("terminates", "embedded".into(), "operation budget exceeded on an embedded stream".into());
                return;
            }
            match r {
                Ok(v) => {
                    if v != clean {
                        ctx.violate("embedded-stream", "differs".into(), format!("a stream of {} messages placed after a {}-byte prefix (reader positioned at its start) decoded to {} messages / different contents", n, plen, v.len()));
                        return;
                    }
                    if pos != image.len() as u64 {
                        ctx.violate("reader-position", "embedded".into(), format!("embedded stream: reader at {} of {}", pos, image.len()));
                        return;
                    }
                }
                Err(e) => {
                    ctx.violate("embedded-stream", "error".into(), format!("a well-formed stream placed after a {}-byte prefix (reader positioned at its start) failed: {}", plen, e));
                    return;
                }
            }
            // and one cut inside it
            if !s.bytes.is_empty() {
                let t = tape.draw(s.bytes.len() as u64) as usize;
                let (k, inside_body) = s.classify_cut(t);
                let mut pl = ReaderPlan::clean();
                pl.eof_at = Some(plen + t);
                let (r, _, _) = decode_from(&image, plen, pl, 0, ctx);
                let ok = match &r {
                    Ok(v) => !inside_body && v.len() == k,
                    Err(_) => inside_body,
                };
                if !ok {
                    ctx.violate("embedded-stream", "cut".into(), format!("embedded stream cut {} bytes in ({} complete messages, inside body: {}): got {:?}", t, k, inside_body, r.as_ref().map(|v| v.len())));
                    return;
                }
            }
        }

        // ---- batch 1c: the stream far into a larger one (offsets beyond 32 bits)
        if tape.draw(4) == 3 && !s.bytes.is_empty() {
            let base = [1u64 << 32, (1u64 << 32) + 12_345, 3 * (1u64 << 32) + 7, (1u64 << 31) + 5, u32::MAX as u64 - 100][tape.draw(5) as usize];
            ctx.count("stream_at_huge_offset");
            let (r, pos, _) = decode_from_base(&s.bytes, base, 0, ReaderPlan::clean(), 0, ctx);
            match r {
                Ok(v) if v == clean && pos == s.bytes.len() as u64 => {}
                Ok(v) => {
                    ctx.violate("stream-at-large-offset", "differs".into(), format!("the stream placed at offset {} of a larger stream decoded to {} messages (reader {} bytes in) instead of {}", base, v.len(), pos, n));
                    return;
                }
                Err(e) => {
                    ctx.violate("stream-at-large-offset", "error".into(), format!("the stream placed at offset {} of a larger stream failed to decode: {}", base, e));
                    return;
                }
            }
        }

        // ---- batch 2: short reads + EINTR must not change anything
        let plan = ReaderPlan::dribble(tape);
        let seed = tape.seed();
        let (dr, _, tripped) = decode_via(&s.bytes, plan.clone(), seed, ctx);
        if tripped {
            ctx.violate("terminates", "dribble".into(), "operation budget exceeded under short reads".into());
            return;
        }
        match dr {
            Ok(v) => {
                if v != clean {
                    ctx.violate("dribble-identical", "differs".into(), format!("short reads / EINTR ({:?}) changed the decoded list ({} vs {} messages)", plan, v.len(), clean.len()));
                    return;
                }
            }
            Err(e) => {
                ctx.violate("dribble-identical", "error".into(), format!("short reads / EINTR ({:?}) turned a well-formed stream into an error: {}", plan, e));
                return;
            }
        }

        // ---- batch 3: end of file at byte t
        let len = s.bytes.len();
        let mut cuts: Vec<usize> = Vec::new();
        if small && len <= 6 * 1024 {
            cuts.extend(0..len);
        } else {
            for b in s.boundaries() {
                for d in [-1i64, 0, 1, 27, 28, 29] {
                    let t = b as i64 + d;
                    if t >= 0 && (t as usize) < len {
                        cuts.push(t as usize);
                    }
                }
            }
            let extra = if small { 64 } else { 256 };
            for _ in 0..extra {
                if len > 0 {
                    cuts.push(tape.draw(len as u64) as usize);
                }
            }
            cuts.sort_unstable();
            cuts.dedup();
            // keep the work per run bounded
            if cuts.len() > 400 {
                let step = cuts.len() / 400 + 1;
                let rot = tape.draw(step as u64) as usize;
                cuts = cuts.into_iter().skip(rot).step_by(step).collect();
            }
        }
        let dribble_cuts = tape.draw(2) == 1;
        for (ci, t) in cuts.iter().copied().enumerate() {
            let (k, inside_body) = s.classify_cut(t);
            let mut plan = if dribble_cuts && ci % 3 == 0 { plan.clone() } else { ReaderPlan::clean() };
            plan.eof_at = Some(t);
            let (r, _, tripped) = decode_via(&s.bytes, plan, seed ^ t as u64, ctx);
            if tripped {
                ctx.violate("terminates", "cut".into(), format!("operation budget exceeded with end of file at byte {}", t));
                return;
            }
            let on_boundary = s.msgs.get(k).map(|m| m.off == t).unwrap_or(t == len);
            if inside_body {
                ctx.count("cut_inside_body");
                if let Ok(v) = &r {
                    let m = &s.msgs[k];
                    ctx.violate(
                        "cut-in-body-is-error",
                        format!("type{}", m.mtype),
                        format!("stream cut at byte {} = {} bytes into message {} (type {}, {} bytes): returned Ok with {} messages instead of an error", t, t - m.off, k, m.mtype, m.len, v.len()),
                    );
                    return;
                }
            } else {
                if on_boundary {
                    ctx.count("cut_on_boundary");
                } else {
                    ctx.count("cut_inside_header");
                }
                match &r {
                    Ok(v) => {
                        if v.len() != k || v[..] != clean[..k] {
                            ctx.violate(
                                "cut-in-header-keeps-prefix",
                                if on_boundary { "boundary".into() } else { "fragment".into() },
                                format!("stream cut at byte {} ({} complete messages before it): returned {} messages", t, k, v.len()),
                            );
                            return;
                        }
                    }
                    Err(e) => {
                        ctx.violate(
                            "cut-in-header-keeps-prefix",
                            if on_boundary { "boundary-error".into() } else { "fragment-error".into() },
                            format!("stream cut at byte {} (fragment of {} header bytes after {} complete messages) is an error: {}", t, t - s.msgs.get(k).map(|m| m.off).unwrap_or(len).min(t), k, e),
                        );
                        return;
                    }
                }
            }
            // a third of the cuts also go through Record::messages on a truly truncated buffer
            if ci % 3 == 1 && t >= 6 {
                ctx.evaluations += 1;
                let rr = Record::new(s.bytes[..t].to_vec()).messages();
                let ok_expected = !inside_body;
                match (&rr, ok_expected) {
                    (Ok(v), true) if v.len() == k => {}
                    (Err(_), false) => {}
                    _ => {
                        ctx.violate(
                            "record-messages-cut",
                            if inside_body { "body".into() } else { "header".into() },
                            format!("Record::messages on the first {} bytes: expected {} got {:?}", t, if ok_expected { format!("Ok({})", k) } else { "Err".into() }, rr.as_ref().map(|v| v.len()).map_err(|e| format!("{:?}", e))),
                        );
                        return;
                    }
                }
            }
        }
        let _ = HEADER;
        if ctx.want_sample && ctx.nontrivial {
            ctx.sample = Some(json!({
                "messages": s.msgs.iter().take(12).map(|m| json!({"type": m.mtype, "seq": m.seq, "bytes": m.len,
                    "blocks_in_pointer_order": m.t31.as_ref().map(|t| t.blocks.iter().map(|b| format!("{}@{}", b.name, b.off)).collect::<Vec<_>>())})).collect::<Vec<_>>(),
                "stream_bytes": len, "device": format!("{:?}", plan), "cut_points_tried": cuts.len()}));
        }
    }
}
