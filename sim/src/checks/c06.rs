//! C06 - volume / record / chunk totality: damaged, truncated and empty objects stored in the
//! simulated bucket, downloaded through the real download functions and handed to the whole API.

use crate::ctx::{Ctx, Params, Tier};
use crate::driver::{Check, Section};
use crate::s3sim::{self, Backend, BodyPlan, Core, NetPlan, Reply, ReqKind, Request};
use crate::streamsim::damage;
use crate::tape::Tape;
use crate::workload::{build_volume, build_volume_inner, StreamOpts};
use nexrad_data::aws::archive::{download_file, Identifier};
use nexrad_data::aws::realtime::{download_chunk, Chunk, ChunkIdentifier, VolumeIndex};
use nexrad_data::volume::{File, Record};
use serde_json::json;

pub struct C06;

struct OneObject {
    data: Vec<u8>,
    /// serve only the first k bytes with a complete 200 response (short object)
    short_at: Option<usize>,
    /// cut the connection after k body bytes
    cut_at: Option<usize>,
    frame: usize,
    gets: u64,
}

impl Backend for OneObject {
    fn on_request(&mut self, _core: &mut Core, _req: &Request) -> NetPlan {
        NetPlan {
            up_ms: 3,
            down_ms: 5,
            body: BodyPlan { cut_at: self.cut_at, frame: self.frame, frame_delay_ms: 2, empty_frame_every: if self.frame == 7 { 2 } else { 0 } },
        }
    }
    fn serve(&mut self, core: &mut Core, req: &Request) -> Reply {
        match &req.kind {
            ReqKind::Get { .. } => {
                self.gets += 1;
                let mut d = self.data.clone();
                if let Some(k) = self.short_at {
                    d.truncate(k);
                }
                Reply::Object { data: d, last_modified: Some(s3sim::rfc2822_ms(core.now_ms() - 4000)), cut_at: None }
            }
            _ => s3sim::status_reply(403, None),
        }
    }
}

fn fmt_len<T: std::fmt::Debug>(v: &T) -> usize {
    // both the compact and the pretty form (`{:#?}` is what `dbg!` prints)
    format!("{:?}", v).len() + format!("{:#?}", v).len()
}

fn exercise_record(ctx: &mut Ctx, r: &Record<'_>, depth: u32) {
    ctx.count("api.record");
    let _ = r.data().len();
    let c = r.compressed();
    let _ = fmt_len(r);
    match r.messages() {
        Ok(m) => {
            ctx.count("record.messages_ok");
            let _ = m.len();
        }
        Err(_) => ctx.count("record.messages_err"),
    }
    match r.decompress() {
        Ok(d) => {
            ctx.count("record.decompress_ok");
            if !c {
                ctx.violate("decompress-uncompressed", "ok".into(), "decompressing a record that is not marked compressed succeeded".into());
            }
            if depth == 0 {
                exercise_record(ctx, &d, 1);
            }
        }
        Err(_) => ctx.count("record.decompress_err"),
    }
}

fn exercise_file(ctx: &mut Ctx, f: &File) {
    ctx.count("api.file");
    let _ = f.data().len();
    match f.header() {
        Ok(h) => {
            ctx.count("file.header_ok");
            let _ = h.tape_filename();
            let _ = h.extension_number();
            let _ = h.date_time();
            let _ = h.icao_of_radar();
            let _ = fmt_len(&h);
        }
        Err(_) => ctx.count("file.header_err"),
    }
    let recs = f.records();
    ctx.add("file.records", recs.len() as u64);
    // the record list must stay inside the file
    let total: usize = recs.iter().map(|r| r.data().len()).sum();
    if total > f.data().len().saturating_sub(24) {
        ctx.violate("records-within-file", "longer".into(), format!("records cover {} bytes of a {}-byte file", total, f.data().len()));
    }
    for r in recs.iter().take(64) {
        exercise_record(ctx, r, 0);
    }
    match f.scan() {
        Ok(s) => {
            ctx.count("file.scan_ok");
            let _ = s.sweeps().len();
        }
        Err(_) => ctx.count("file.scan_err"),
    }
    let _ = fmt_len(f);
}

fn exercise_all(ctx: &mut Ctx, data: &[u8]) {
    ctx.evaluations += 1;
    match Chunk::new(data.to_vec()) {
        Ok(c) => {
            ctx.count("chunk.new_ok");
            let _ = c.data().len();
            let _ = fmt_len(&c);
            match &c {
                Chunk::Start(f) => exercise_file(ctx, f),
                Chunk::IntermediateOrEnd(r) => exercise_record(ctx, r, 0),
            }
        }
        Err(_) => ctx.count("chunk.new_err"),
    }
    exercise_file(ctx, &File::new(data.to_vec()));
    exercise_record(ctx, &Record::new(data.to_vec()), 0);
    exercise_record(ctx, &Record::from_slice(data), 0);
}

/// The four alphabets of the boundary enumeration.
fn boundary_string(len: usize, alphabet: u64, variant: u64) -> Vec<u8> {
    let mut v = vec![0u8; len];
    match alphabet {
        0 => {}
        1 => {
            let pat = b"AR2V0006.001\x00\x00\x4e\x20\x02\x25\x51\x00KDMX";
            for (i, b) in v.iter_mut().enumerate() {
                *b = if i < pat.len() { pat[i] } else { (i as u8).wrapping_mul(37) ^ variant as u8 };
            }
            // after the header: a size prefix that is zero, exact, too large or negative
            if len > 27 {
                let rest = (len - 28) as i32;
                let p: i32 = match variant {
                    0 => rest,
                    1 => rest + 1,
                    2 => -rest,
                    3 => i32::MAX,
                    4 => i32::MIN,
                    _ => 0,
                };
                v[24..28].copy_from_slice(&p.to_be_bytes());
                if len > 30 {
                    v[28] = b'B';
                    v[29] = b'Z';
                    v[30] = b'h';
                }
            }
        }
        2 => {
            for (i, b) in v.iter_mut().enumerate() {
                *b = (i as u8).wrapping_mul(29) ^ (variant as u8).wrapping_mul(3);
            }
            if len > 3 {
                let rest = len as i32 - 4;
                let p: i32 = match variant {
                    0 => rest,
                    1 => rest + 7,
                    2 => -rest,
                    3 => i32::MAX,
                    4 => i32::MIN,
                    _ => 0,
                };
                v[0..4].copy_from_slice(&p.to_be_bytes());
            }
            if len > 4 {
                v[4] = b'B';
            }
            if len > 5 {
                v[5] = b'Z';
            }
            if len > 7 {
                v[6] = b'h';
                v[7] = b'9';
            }
        }
        3 => {
            let mut r = crate::rng::Rng::new(crate::rng::mix(&[len as u64, variant, 99]));
            r.fill(&mut v);
        }
        _ => {
            // "AR2" + a tape name that is valid UTF-8 with multi-byte characters at various
            // offsets, then extreme date / time fields
            let names: [&[u8]; 6] = [
                b"AR2V0\xc3\xa906",
                b"AR2V000\xc3\xa9",
                b"AR2V00\xe2\x82\xac",
                b"AR2\xf0\x9f\x8c\xa9\xc3\xa9",
                b"AR2V\xc3\xa9\xc3\xa9\xc3",
                b"ARCHIVE2.",
            ];
            let pat = names[variant as usize % 6];
            for (i, b) in v.iter_mut().enumerate() {
                *b = if i < pat.len() { pat[i] } else { 0x30 + (i as u8 % 10) };
            }
            if len >= 20 {
                let date: u32 = [95_026_237u32, 95_026_188, u32::MAX, 65_536, 0, 0x7FFF_FFFF][variant as usize % 6];
                let time: u32 = [u32::MAX, 86_400_000, 86_399_999, 0, u32::MAX, 1][variant as usize % 6];
                v[12..16].copy_from_slice(&date.to_be_bytes());
                v[16..20].copy_from_slice(&time.to_be_bytes());
            }
        }
    }
    v
}

impl Check for C06 {
    fn id(&self) -> &'static str {
        "C06"
    }
    fn level(&self) -> &'static str {
        "fault_enumeration"
    }
    fn engine(&self) -> &'static str {
        "s3sim + streamsim damage catalogue"
    }
    fn plan(&self, tier: Tier) -> Vec<Section> {
        match tier {
            Tier::Quick => vec![
                Section { name: "boundary-lengths-0..=64-x-5-alphabets-x-6-variants", runs: 65 * 5 * 6 },
                Section { name: "every-truncation-of-small-volumes", runs: 300 },
                Section { name: "damaged-objects-downloaded", runs: 12_000 },
            ],
            Tier::Thorough => vec![
                Section { name: "boundary-lengths-0..=64-x-5-alphabets-x-6-variants", runs: 65 * 5 * 6 },
                Section { name: "every-truncation-of-small-volumes", runs: 12_000 },
                Section { name: "damaged-objects-downloaded", runs: 600_000 },
            ],
        }
    }
    fn rule(&self) -> &'static str {
        "a case is an object stored in the simulated bucket and fetched with the real download_file / download_chunk (short object, connection cut mid-body, framed body), then handed to Chunk::new, File::{new,data,header,records,scan,Debug}, Record::{new,from_slice,data,compressed,decompress,messages,Debug} and the decompressed record again. Objects: every length 0..=64 over five alphabets (zeros, AR2 header + size-prefix variants, size prefix + BZ magic, pseudo-random, AR2 + multi-byte UTF-8 names + extreme date/time) x 6 variants (exact, too large, negative, i32::MAX, i32::MIN, zero); every truncation point of small valid volumes and chunks; valid volumes/chunks with 1..4 pieces of stored-byte damage, size-prefix extremes and bzip2-stream damage. Oracle: no panic, returns (watchdog), records stay inside the file. evaluations = objects exercised. Non-trivial = object with at least a volume header or record prefix (>= 6 bytes) and a fault; distinct = object digest"
    }
    fn assumptions(&self) -> Vec<&'static str> {
        vec![
            "objects travel through the in-process endpoint behind reqwest::get; reqwest's Response/body collection is real",
            "memory is not part of C06's statement and is not bounded here (a bzip2 bomb is out of scope); termination is a wall-clock watchdog",
        ]
    }
    fn components(&self) -> serde_json::Value {
        json!({"real": ["archive::download_file", "realtime::download_chunk", "s3::download_object", "Chunk::new/data/Debug", "volume::File::{new,data,header,records,scan,Debug}", "volume::Record::{new,from_slice,data,compressed,decompress,messages,Debug}", "split_compressed_records", "volume::Header accessors", "nexrad-decode decoders via messages()/scan()", "nexrad-model Sweep::from_radials/Scan::new"],
               "stub": ["reqwest client + TLS + TCP + S3 (in-process endpoint)"]})
    }
    fn required_probes(&self, _tier: Tier) -> Vec<&'static str> {
        // workload-side probes only (what was served and exercised, not what the code chose to return)
        vec!["api.file", "api.record", "fault.short_object", "fault.body_cut", "fault.stored_damage", "fault.size_prefix", "fault.payload_damaged_before_compression"]
    }
    fn budget_s(&self, tier: Tier) -> u64 {
        match tier {
            Tier::Quick => 100,
            Tier::Thorough => 1500,
        }
    }
    fn watchdog_s(&self) -> u64 {
        // runs take milliseconds; a worker that shows no progress for this long is in a loop
        30
    }

    fn run(&self, p: &Params, tape: &mut Tape, ctx: &mut Ctx) {
        crate::icd::ALLOW_NON_FINITE.with(|a| a.set(true));
        let opts = StreamOpts { max_msgs: 6, permute_pointers: true, gaps: true, max_gates: 200, t31_percent: 70, extreme_halfwords: 0 };
        // ---- the stored object and the transport faults
        let mut notes: Vec<String> = Vec::new();
        let mut short_at = None;
        let mut cut_at = None;
        let mut truncations: Vec<usize> = Vec::new();
        let data: Vec<u8> = match p.section {
            0 => {
                let len = (p.index / 30) as usize;
                let alphabet = (p.index % 30) / 6;
                let variant = p.index % 6;
                notes.push(format!("boundary len={} alphabet={} variant={}", len, alphabet, variant));
                boundary_string(len, alphabet, variant)
            }
            1 => {
                let small = StreamOpts { max_msgs: 2, max_gates: 16, ..opts.clone() };
                let v = build_volume(tape, 2, &small);
                let as_chunk = tape.draw(3) == 2 && !v.records.is_empty();
                let bytes = if as_chunk { v.bytes[24..].to_vec() } else { v.bytes.clone() };
                let step = bytes.len() / 1500 + 1;
                truncations = (0..bytes.len()).step_by(step).collect();
                notes.push(format!("every truncation (step {}) of a {} of {} bytes, {} records", step, if as_chunk { "chunk" } else { "volume" }, bytes.len(), v.records.len()));
                bytes
            }
            _ if p.index % 1500 == 1499 => {
                // an intact record whose payload is far larger than anything real: tens of
                // thousands of empty frames compress to a few KB
                let frames = 20_000 + tape.draw(12_000) as usize;
                let mut payload = Vec::with_capacity(frames * 2432);
                let mut r = tape.fork();
                let one = crate::icd::frame(&mut r, 2, 1, &[0u8; 0]);
                let zero_frame: Vec<u8> = one.iter().enumerate().map(|(i, b)| if i < 28 { *b } else { 0 }).collect();
                for _ in 0..frames {
                    payload.extend_from_slice(&zero_frame);
                }
                let mut v = crate::icd::volume_header("6", 1, 19_000, 1, "KDMX");
                v.extend_from_slice(&crate::icd::ldm_record(&payload, false));
                notes.push(format!("one intact record of {} empty frames ({} bytes uncompressed, {} compressed)", frames, payload.len(), v.len() - 24));
                ctx.count("huge_compressible_record");
                v
            }
            _ => {
                let (v, inner_notes) = build_volume_inner(tape, 4, &opts, true);
                if !inner_notes.is_empty() {
                    ctx.count("fault.payload_damaged_before_compression");
                }
                notes.extend(inner_notes);
                let as_chunk = tape.draw(3) == 2 && !v.records.is_empty();
                let mut bytes = if as_chunk { v.bytes[24..].to_vec() } else { v.bytes.clone() };
                let shift = if as_chunk { 24 } else { 0 };
                // field-directed: size prefixes
                if !v.records.is_empty() && tape.draw(3) == 2 {
                    let (off, len) = v.records[tape.draw(v.records.len() as u64) as usize];
                    let o = off - shift;
                    let val: i32 = match tape.draw(8) {
                        0 => 0,
                        1 => -1,
                        2 => i32::MAX,
                        3 => i32::MIN,
                        4 => (len as i32 - 4) + 1,
                        5 => (len as i32 - 4) - 1,
                        6 => 2,
                        _ => bytes.len() as i32,
                    };
                    if o + 4 <= bytes.len() {
                        bytes[o..o + 4].copy_from_slice(&val.to_be_bytes());
                        notes.push(format!("size prefix at {} := {}", o, val));
                        ctx.count("fault.size_prefix");
                    }
                }
                // field-directed: the volume header's 32-bit date and time
                if !as_chunk && bytes.len() >= 24 && tape.draw(6) == 5 {
                    let date: u32 = [95_026_237u32, 95_026_200, 95_026_188, u32::MAX, 65_536, 65_535, 0, 0x7FFF_FFFF][tape.draw(8) as usize];
                    let time: u32 = [u32::MAX, 86_400_000, 86_399_999, 0, 0x7FFF_FFFF][tape.draw(5) as usize];
                    bytes[12..16].copy_from_slice(&date.to_be_bytes());
                    bytes[16..20].copy_from_slice(&time.to_be_bytes());
                    notes.push(format!("volume header date := {} time := {}", date, time));
                    ctx.count("fault.header_date_time_extreme");
                }
                let k = tape.draw(4);
                for _ in 0..k {
                    let d = damage(&mut bytes, tape);
                    notes.push(format!("{}@{}+{}", d.kind, d.at, d.len));
                    ctx.count("fault.stored_damage");
                }
                match tape.weighted(&[4, 2, 2]) {
                    0 => {}
                    1 => {
                        if !bytes.is_empty() {
                            short_at = Some(tape.draw(bytes.len() as u64) as usize);
                        }
                    }
                    _ => {
                        if !bytes.is_empty() {
                            cut_at = Some(tape.draw(bytes.len() as u64) as usize);
                        }
                    }
                }
                bytes
            }
        };
        ctx.class.b(&data);
        ctx.nontrivial = data.len() >= 6;
        let frame = [0usize, 1, 7, 4096][tape.draw(4) as usize];
        ctx.ev("object", &[data.len() as u64], || format!("{:?} short_at={:?} cut_at={:?} frame={}", notes, short_at, cut_at, frame));

        let stored = data.clone();
        let trunc = truncations.clone();
        let (file_r, chunk_r, short_objs) = s3sim::with_world(
            tape,
            ctx,
            |_core| OneObject { data: stored, short_at, cut_at, frame, gets: 0 },
            |world, rt| {
                rt.block_on(async {
                    let id = Identifier::new("KDMX20240804_101007_V06".to_string());
                    let f = download_file(id).await;
                    let cid = ChunkIdentifier::new("KDMX".into(), VolumeIndex::new(17), "20240804-101007-005-I".into(), None);
                    let c = download_chunk("KDMX", &cid).await;
                    // every truncation point: served as short objects one after the other
                    let mut shorts = Vec::new();
                    for t in trunc {
                        world.borrow_mut().backend.short_at = Some(t);
                        let id = Identifier::new("KDMX20240804_101007_V06".to_string());
                        shorts.push((t, download_file(id).await.map(|f| f.data().clone())));
                    }
                    (f, c.map(|(_, c)| c), shorts)
                })
            },
        );
        if short_at.is_some() {
            ctx.count("fault.short_object");
        }
        if cut_at.is_some() {
            ctx.count("fault.body_cut");
        }
        // ---- oracle: a value or an error, never a panic (panics are caught by the driver)
        match &file_r {
            Ok(f) => {
                if cut_at.is_some() {
                    ctx.violate("cut-download-is-error", "file".into(), format!("connection cut after {:?} body bytes but download_file returned {} bytes as success", cut_at, f.data().len()));
                    return;
                }
                let expect = short_at.map(|k| &data[..k]).unwrap_or(&data[..]);
                if f.data().as_slice() != expect {
                    ctx.violate("download-bytes", "file".into(), "download_file returned bytes that differ from what was served".into());
                    return;
                }
                exercise_all(ctx, f.data());
            }
            Err(_) => {
                ctx.count("download_error");
                if cut_at.is_none() {
                    ctx.violate("download-spurious-error", "file".into(), format!("download_file failed without a transport fault: {:?}", file_r.as_ref().err()));
                    return;
                }
            }
        }
        match &chunk_r {
            Ok(c) => {
                let _ = c.data().len();
                let _ = fmt_len(c);
                match c {
                    Chunk::Start(f) => exercise_file(ctx, f),
                    Chunk::IntermediateOrEnd(r) => exercise_record(ctx, r, 0),
                }
            }
            Err(_) => ctx.count("chunk_download_error"),
        }
        for (t, r) in &short_objs {
            ctx.count("fault.short_object");
            match r {
                Ok(bytes) => {
                    if bytes.as_slice() != &data[..*t] {
                        ctx.violate("download-bytes", "truncation".into(), format!("object truncated at {} came back with {} bytes", t, bytes.len()));
                        return;
                    }
                    exercise_all(ctx, bytes);
                }
                Err(e) => {
                    ctx.violate("download-spurious-error", "truncation".into(), format!("download of an object truncated at {} failed: {:?}", t, e));
                    return;
                }
            }
            if ctx.failed() {
                return;
            }
        }
        if ctx.want_sample && ctx.nontrivial {
            ctx.sample = Some(json!({"object_bytes": data.len(), "faults": notes, "short_at": short_at, "cut_at": cut_at, "truncation_points": truncations.len(),
                "first_bytes_hex": data.iter().take(32).map(|b| format!("{:02x}", b)).collect::<String>()}));
        }
    }
}
