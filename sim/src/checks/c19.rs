//! C19 - chunk-to-elevation mapping and next-chunk estimate, replayed over histories produced by
//! the polling simulation and over seeded synthetic histories, next to a small reference model.

use crate::checks::c18::{draw_config, run_session, Flavor};
use crate::ctx::{Ctx, Params, Tier};
use crate::driver::{Check, Section};
use crate::icd::{VcpCut, VcpSpec};
use crate::rng::Rng;
use crate::rtworld::vcp_from_seed;
use crate::s3sim;
use crate::tape::Tape;
use chrono::{DateTime, Duration, TimeZone, Utc};
use nexrad_data::aws::realtime::{
    estimate_next_chunk_time, get_elevation_from_chunk, ChunkCharacteristics, ChunkIdentifier, ChunkTimingStats, ChunkType, PollStats, VolumeIndex,
};
use nexrad_data::verif::install_clock;
use nexrad_decode::messages::volume_coverage_pattern::{decode_volume_coverage_pattern, ChannelConfiguration, Message as VcpMessage, WaveformType};
use serde_json::json;
use std::collections::{BTreeMap, VecDeque};
use std::rc::Rc;

pub struct C19;

// ---- reference model -------------------------------------------------------------------------

/// Cut index for a chunk sequence: chunk 1 is metadata; a half-degree cut spans 6 chunks, any other 3.
fn model_cut(seq: usize, cuts: &[VcpCut]) -> Option<usize> {
    if seq <= 1 {
        return None;
    }
    let mut last = 1usize;
    for (i, c) in cuts.iter().enumerate() {
        last += if c.super_res & 1 == 1 { 6 } else { 3 };
        if seq <= last {
            return Some(i);
        }
    }
    None
}

fn model_waveform(code: u8) -> u8 {
    if (1..=5).contains(&code) {
        code
    } else {
        0
    }
}
fn model_channel(code: u8) -> u8 {
    if code <= 2 {
        code
    } else {
        3
    }
}

/// key: (chunk type 0 start / 1 intermediate / 2 end, waveform class, channel class)
type Key = (u8, u8, u8);

#[derive(Default)]
struct ModelStats {
    windows: BTreeMap<Key, VecDeque<(i64, usize)>>,
}

impl ModelStats {
    fn add(&mut self, k: Key, duration_ms: i64, attempts: usize) {
        let w = self.windows.entry(k).or_default();
        w.push_back((duration_ms, attempts));
        if w.len() > 10 {
            w.pop_front();
        }
    }
    fn mean_ms(&self, k: &Key) -> Option<i64> {
        self.windows.get(k).filter(|w| !w.is_empty()).map(|w| w.iter().map(|x| x.0).sum::<i64>() / w.len() as i64)
    }
    fn mean_attempts(&self, k: &Key) -> Option<f64> {
        self.windows.get(k).filter(|w| !w.is_empty()).map(|w| w.iter().map(|x| x.1).sum::<usize>() as f64 / w.len() as f64)
    }
}

fn model_estimate(prev_seq: Option<usize>, prev_time_ms: i64, cuts: &[VcpCut], stats: Option<&ModelStats>) -> Option<i64> {
    let s = prev_seq?;
    if !(1..=55).contains(&s) {
        return None;
    }
    if s == 55 {
        return Some(prev_time_ms + 10_000);
    }
    let next = s + 1;
    let ci = model_cut(next, cuts)?;
    let c = &cuts[ci];
    let key: Key = (if next == 55 { 2 } else { 1 }, model_waveform(c.waveform), model_channel(c.channel_configuration));
    let hist = stats.and_then(|st| match (st.mean_ms(&key), st.mean_attempts(&key)) {
        (Some(m), Some(a)) => Some(m + 1000 * (a as i64 - 1)),
        _ => None,
    });
    let wait = match hist {
        Some(h) => h,
        None => {
            if model_waveform(c.waveform) == 1 {
                11_000
            } else if model_channel(c.channel_configuration) == 0 {
                7_000
            } else {
                4_000
            }
        }
    };
    Some(prev_time_ms + wait)
}

// ---- bridging to the real API ------------------------------------------------------------------

fn real_key(k: &ChunkCharacteristics) -> Key {
    let t = match k.chunk_type {
        ChunkType::Start => 0,
        ChunkType::Intermediate => 1,
        ChunkType::End => 2,
    };
    let w = match k.waveform_type {
        WaveformType::CS => 1,
        WaveformType::CDW => 2,
        WaveformType::CDWO => 3,
        WaveformType::B => 4,
        WaveformType::SPP => 5,
        WaveformType::Unknown => 0,
    };
    let c = match k.channel_configuration {
        ChannelConfiguration::ConstantPhase => 0,
        ChannelConfiguration::RandomPhase => 1,
        ChannelConfiguration::SZ2Phase => 2,
        ChannelConfiguration::UnknownPhase => 3,
    };
    (t, w, c)
}

fn characteristics(k: Key) -> ChunkCharacteristics {
    ChunkCharacteristics {
        chunk_type: match k.0 {
            0 => ChunkType::Start,
            1 => ChunkType::Intermediate,
            _ => ChunkType::End,
        },
        waveform_type: match k.1 {
            1 => WaveformType::CS,
            2 => WaveformType::CDW,
            3 => WaveformType::CDWO,
            4 => WaveformType::B,
            5 => WaveformType::SPP,
            _ => WaveformType::Unknown,
        },
        channel_configuration: match k.2 {
            0 => ChannelConfiguration::ConstantPhase,
            1 => ChannelConfiguration::RandomPhase,
            2 => ChannelConfiguration::SZ2Phase,
            _ => ChannelConfiguration::UnknownPhase,
        },
    }
}

fn decode_vcp(spec: &VcpSpec, seed: u64) -> Option<VcpMessage> {
    let body = spec.encode_body(&mut Rng::new(seed));
    decode_volume_coverage_pattern(&mut body.as_slice()).ok()
}

fn dt(ms: i64) -> DateTime<Utc> {
    Utc.timestamp_millis_opt(ms).single().unwrap_or(DateTime::<Utc>::MIN_UTC)
}

fn name_for(seq: usize) -> String {
    // names are derived from the sequence the way the bucket names chunks (1 = S, 55 = E): the
    // statement quantifies over sequences and calls sequence 55 the end chunk, so a name whose type
    // letter contradicts its sequence is outside it
    let t = match seq {
        1 => "S",
        55 => "E",
        _ => "I",
    };
    format!("20240804-101007-{:03}-{}", seq, t)
}

/// One step of a history.
#[derive(Clone, Debug)]
struct Step {
    cuts_id: usize,
    prev_seq: usize,
    prev_time_ms: i64,
    duration_ms: i64,
    attempts: usize,
}

struct Replayer {
    real: ChunkTimingStats,
    model: ModelStats,
}

impl Replayer {
    /// Compares mapping, statistics and estimates after feeding one sample.
    fn step(&mut self, ctx: &mut Ctx, st: &Step, spec: &VcpSpec, vcp: &VcpMessage, what: &str) {
        ctx.evaluations += 1;
        // the statistics object is Clone: a copy taken at any point must carry on exactly like
        // the original (every 7th step continues on a clone)
        if (st.prev_seq + st.duration_ms as usize + st.attempts) % 7 == 3 {
            self.real = self.real.clone();
            ctx.count("continued_on_clone");
        }
        let cuts = &spec.cuts;
        // the sample is recorded under the characteristics of the chunk it belongs to (sequence prev+1)
        let seq = st.prev_seq + 1;
        if let Some(ci) = model_cut(seq, cuts) {
            let c = &cuts[ci];
            let key: Key = (if seq == 55 { 2 } else if seq == 1 { 0 } else { 1 }, model_waveform(c.waveform), model_channel(c.channel_configuration));
            self.real.add_timing(characteristics(key), Duration::milliseconds(st.duration_ms), st.attempts);
            self.model.add(key, st.duration_ms, st.attempts);
            ctx.count("samples_recorded");
        }
        // statistics: compared as a sorted set (map iteration order is not part of the contract)
        let mut got: Vec<(Key, Option<i64>, Option<u64>)> = self
            .real
            .get_statistics()
            .into_iter()
            .map(|(k, d, a)| (real_key(&k), d.map(|d| d.num_milliseconds()), a.map(|a| a.to_bits())))
            .collect();
        got.sort();
        let mut want: Vec<(Key, Option<i64>, Option<u64>)> =
            self.model.windows.keys().map(|k| (*k, self.model.mean_ms(k), self.model.mean_attempts(k).map(|a| a.to_bits()))).collect();
        want.sort();
        if got != want {
            let at = got.iter().zip(want.iter()).position(|(a, b)| a != b);
            ctx.violate(
                "rolling-window-statistics",
                what.into(),
                format!("{}: statistics differ from the reference window model; first difference {:?}: real {:?} model {:?} ({} vs {} keys)", what, at, at.map(|i| (got[i].0, got[i].1, got[i].2.map(f64::from_bits))), at.map(|i| (want[i].0, want[i].1, want[i].2.map(f64::from_bits))), got.len(), want.len()),
            );
            return;
        }
        if self.model.windows.values().any(|w| w.len() == 10) {
            ctx.count("window_full");
        }
        // estimates for a few previous sequences around the step
        for (ps, with_stats) in [(st.prev_seq, true), (st.prev_seq + 1, true), (st.prev_seq, false)] {
            check_estimate(ctx, Some(ps), st.prev_time_ms, spec, vcp, if with_stats { Some((&self.real, &self.model)) } else { None }, what);
            if ctx.failed() {
                return;
            }
        }
    }
}

fn check_estimate(ctx: &mut Ctx, prev_seq: Option<usize>, prev_time_ms: i64, spec: &VcpSpec, vcp: &VcpMessage, stats: Option<(&ChunkTimingStats, &ModelStats)>, what: &str) {
    let name = match prev_seq {
        Some(s) => name_for(s),
        None => "20240804-101007-xyz-I".to_string(),
    };
    let id = ChunkIdentifier::new("KDMX".into(), VolumeIndex::new(17), name, Some(dt(prev_time_ms)));
    // the local clock may be behind the upload time (skew): an estimate anchored on a known
    // upload time must not depend on the clock at all
    let clock_behind = prev_time_ms % 3 == 0;
    if clock_behind {
        let now_ms = prev_time_ms - 1000 - (prev_time_ms % 3_600_000);
        install_clock(Some(Rc::new(move || dt(now_ms))));
        ctx.count("clock_behind_upload_time");
    }
    let got = estimate_next_chunk_time(&id, vcp, stats.map(|s| s.0)).map(|d| d.timestamp_millis());
    if clock_behind {
        install_clock(None);
    }
    let want = model_estimate(prev_seq, prev_time_ms, &spec.cuts, stats.map(|s| s.1));
    ctx.evaluations += 1;
    if got != want {
        let clause = match (got, want) {
            (None, Some(_)) | (Some(_), None) => "estimate-defined",
            _ => "estimate-value",
        };
        ctx.violate(
            clause,
            format!("{}:{}", what, if stats.is_some() { "history" } else { "default" }),
            format!("{}: previous sequence {:?} at {} with {} cuts: estimate {:?} (+{:?} ms), reference {:?} (+{:?} ms)", what, prev_seq, prev_time_ms, spec.cuts.len(), got, got.map(|g| g - prev_time_ms), want, want.map(|w| w - prev_time_ms)),
        );
        return;
    }
    if let Some(g) = got {
        if g < prev_time_ms {
            ctx.violate("estimate-not-before-previous", what.into(), format!("estimate {} is earlier than the previous upload time {}", g, prev_time_ms));
        }
        if stats.is_some() {
            ctx.count("estimate_from_history_or_default");
        }
    } else {
        ctx.count("estimate_none");
    }
}

fn check_mapping(ctx: &mut Ctx, spec: &VcpSpec, vcp: &VcpMessage, max_seq: usize) {
    let mut prev: Option<usize> = None;
    for seq in 0..=max_seq {
        ctx.evaluations += 1;
        let got = get_elevation_from_chunk(seq, &vcp.elevations);
        let got_idx = got.and_then(|e| vcp.elevations.iter().position(|x| std::ptr::eq(x, e)));
        let want = if seq == 0 { None } else { model_cut(seq, &spec.cuts) };
        if seq == 0 {
            // sequence 0 is outside the statement ("from 1 upward"): only totality
            continue;
        }
        if got_idx != want || (got.is_some() && got_idx.is_none()) {
            ctx.violate(
                "chunk-to-cut-mapping",
                if want.is_none() { "should-be-none".into() } else if got_idx.is_none() { "should-be-some".into() } else { "wrong-cut".into() },
                format!("sequence {} with cuts {:?}: mapped to cut {:?}, reference says {:?}", seq, spec.cuts.iter().map(|c| if c.super_res & 1 == 1 { 6 } else { 3 }).collect::<Vec<_>>(), got_idx, want),
            );
            return;
        }
        if let (Some(a), Some(b)) = (prev, got_idx) {
            if b < a {
                ctx.violate("mapping-monotone", "decreasing".into(), format!("sequence {} maps to cut {} after cut {}", seq, b, a));
                return;
            }
        }
        if got_idx.is_some() {
            prev = got_idx;
        } else if prev.is_some() {
            ctx.count("beyond_last_cut");
        }
    }
}

impl Check for C19 {
    fn id(&self) -> &'static str {
        "C19"
    }
    fn level(&self) -> &'static str {
        "exploration"
    }
    fn engine(&self) -> &'static str {
        "s3sim histories + reference model"
    }
    fn plan(&self, tier: Tier) -> Vec<Section> {
        match tier {
            Tier::Quick => vec![
                Section { name: "histories-from-polling-simulation", runs: 10_000 },
                Section { name: "seeded-synthetic-histories", runs: 30_000 },
            ],
            Tier::Thorough => vec![
                Section { name: "histories-from-polling-simulation", runs: 1_000_000 },
                Section { name: "seeded-synthetic-histories", runs: 4_000_000 },
            ],
        }
    }
    fn rule(&self) -> &'static str {
        "a case is a history of recorded timings replayed operation by operation through ChunkTimingStats::add_timing / get_statistics, estimate_next_chunk_time (with history, without history, with a missing upload time under the simulated clock) and get_elevation_from_chunk next to a reference model (cumulative 6/3 walk; window of 10 per key; integer mean of milliseconds; + (floor(mean attempts) - 1) s; defaults 11/7/4 s; +10 s after sequence 55; none outside 1..=55 or beyond the last cut). Section 0 takes the histories from simulated polling sessions (upload-time differences and attempt counts produced by the simulated uploader, visibility delays and faults under the virtual clock, VCP cut lists of the simulated volumes); section 1 draws them (cut lists of 0..32 cuts x both resolutions, sequences 1..200, up to 50 samples per key, durations 0..60 s, attempts 1..5). The simulation contributes histories, not interleavings: no fault or schedule can change these functions. evaluations = API calls compared. Non-trivial = history with >= 3 recorded samples; distinct = hash of (cut list, sample sequence)"
    }
    fn assumptions(&self) -> Vec<&'static str> {
        vec![
            "the adjustment by the mean attempt count is (floor(mean attempts) - 1) whole seconds, as DESIGN.md fixes it",
            "the sample of the chunk with sequence s+1 is keyed by that chunk's type and by the waveform/channel of the cut it maps to; which key the *poller* records under is not part of the property and is not checked",
            "statistics are compared as a sorted set: hash-map iteration order is not part of the contract",
        ]
    }
    fn components(&self) -> serde_json::Value {
        json!({"real": ["get_elevation_from_chunk", "estimate_next_chunk_time", "ChunkTimingStats::{new,add_timing,get_statistics}", "ChunkIdentifier::{new,sequence,date_time}", "decode_volume_coverage_pattern (to obtain the cut list type)", "poll_chunks and everything beneath it (section 0, as history source)"],
               "stub": ["system clock (Utc::now seam) for identifiers without an upload time", "S3/HTTP (section 0, as in C18)"]})
    }
    fn required_probes(&self, _tier: Tier) -> Vec<&'static str> {
        vec!["window_full", "estimate_none", "estimate_from_history_or_default", "beyond_last_cut", "missing_upload_time_uses_clock", "samples_recorded", "polling_history_steps", "continued_on_clone", "clock_behind_upload_time"]
    }
    fn budget_s(&self, tier: Tier) -> u64 {
        match tier {
            Tier::Quick => 100,
            Tier::Thorough => 1500,
        }
    }

    fn run(&self, p: &Params, tape: &mut Tape, ctx: &mut Ctx) {
        // both public constructors must give the same object
        let real = if tape.draw(2) == 1 {
            ctx.count("constructed_with_default");
            ChunkTimingStats::default()
        } else {
            ChunkTimingStats::new()
        };
        let mut rp = Replayer { real, model: ModelStats::default() };
        if p.section == 0 {
            // ---- history from a simulated polling session
            let flavor = [Flavor::AdaptiveFaults, Flavor::ScriptedFaults, Flavor::AdaptiveClean][tape.draw(3) as usize];
            let mut cfg = draw_config(tape, flavor, 170);
            cfg.script.with_stats = true;
            cfg.script.drop_stats_after = None;
            cfg.faults.startup_fault_at = None;
            if cfg.script.stop_after.is_none() && cfg.script.stop_at_request.is_none() && cfg.script.drop_chunks_after.is_none() && cfg.chunks_until_end.is_none() {
                cfg.script.stop_after = Some(40);
            }
            let seed = tape.seed();
            let (deliveries, stats, gens) = run_session(tape, ctx, &cfg, seed, false);
            let attempts: Vec<usize> = stats
                .iter()
                .filter_map(|(_, s)| match s {
                    PollStats::NewChunk(n) => Some(n.calls),
                    _ => None,
                })
                .collect();
            let mut steps = 0u64;
            let mut vcps: BTreeMap<i64, (VcpSpec, VcpMessage)> = BTreeMap::new();
            for (i, pair) in deliveries.windows(2).enumerate() {
                let (a, b) = (&pair[0], &pair[1]);
                let (ta, tb) = match (a.date_time_ms, b.date_time_ms) {
                    (Some(x), Some(y)) => (x, y),
                    _ => continue,
                };
                // generation of the later chunk (its VCP is the one in effect)
                let gen = gens.values().find(|g| g.dir == b.volume && b.name.starts_with(&g.prefix));
                let gen = match gen {
                    Some(g) => g,
                    None => continue,
                };
                if !vcps.contains_key(&gen.g) {
                    if let Some(m) = decode_vcp(&gen.vcp, gen.vcp_seed) {
                        vcps.insert(gen.g, (gen.vcp.clone(), m));
                    } else {
                        ctx.violate("vcp-decodes", "polling".into(), "a well-formed VCP body failed to decode".into());
                        return;
                    }
                }
                let (spec, msg) = &vcps[&gen.g];
                let prev_seq = match a.sequence {
                    Some(s) if s < 55 => s,
                    _ => continue,
                };
                let st = Step { cuts_id: gen.g as usize, prev_seq, prev_time_ms: ta, duration_ms: (tb - ta).max(0), attempts: attempts.get(i).copied().unwrap_or(1).max(1) };
                ctx.class.u(st.prev_seq as u64);
                ctx.class.u(st.duration_ms as u64);
                ctx.class.u(st.attempts as u64);
                rp.step(ctx, &st, spec, msg, "polling-history");
                if ctx.failed() {
                    return;
                }
                steps += 1;
            }
            for (spec, msg) in vcps.values() {
                check_mapping(ctx, spec, msg, 120);
                if ctx.failed() {
                    return;
                }
            }
            ctx.add("polling_history_steps", steps);
            ctx.nontrivial = steps >= 3;
            if ctx.want_sample && ctx.nontrivial {
                ctx.sample = Some(json!({"source": "simulated polling session", "uploader": format!("{:?}", cfg.mode), "deliveries": deliveries.len(), "history_steps": steps,
                    "first_steps": deliveries.windows(2).take(6).map(|w| json!({"prev": w[0].name, "next": w[1].name, "duration_ms": w[1].date_time_ms.unwrap_or(0) - w[0].date_time_ms.unwrap_or(0)})).collect::<Vec<_>>(),
                    "attempts": attempts.iter().take(12).collect::<Vec<_>>()}));
            }
        } else {
            // ---- seeded synthetic history
            let ncuts = match tape.weighted(&[5, 1, 1, 1]) {
                0 => 1 + tape.draw(32) as usize,
                1 => 0,
                2 => 32,
                _ => 1 + tape.draw(4) as usize,
            };
            let res_mode = tape.draw(3);
            let few_kinds = tape.draw(2) == 1;
            let cuts: Vec<VcpCut> = (0..ncuts)
                .map(|_| VcpCut {
                    channel_configuration: if few_kinds { tape.draw(2) as u8 } else { tape.draw(5) as u8 },
                    waveform: if few_kinds { 1 + tape.draw(2) as u8 } else { tape.draw(8) as u8 },
                    super_res: match res_mode {
                        0 => tape.draw(16) as u8,
                        1 => 1,
                        _ => 0,
                    },
                })
                .collect();
            let spec = VcpSpec { pattern_number: 212, declared_cuts: ncuts as u16, cuts };
            let vseed = tape.seed();
            let msg = match decode_vcp(&spec, vseed) {
                Some(m) => m,
                None => {
                    ctx.violate("vcp-decodes", "synthetic".into(), "a well-formed VCP body failed to decode".into());
                    return;
                }
            };
            check_mapping(ctx, &spec, &msg, 200);
            if ctx.failed() {
                return;
            }
            let nsteps = match tape.weighted(&[4, 3, 1]) {
                0 => tape.draw(30) as usize,
                1 => tape.draw(200) as usize,
                _ => 0,
            };
            let dur_mode = tape.draw(4);
            let mut t = s3sim::EPOCH_MS;
            let mut seq = 1 + tape.draw(54) as usize;
            for i in 0..nsteps {
                let d = match dur_mode {
                    0 => tape.draw(60_001) as i64,
                    1 => [0i64, 1, 999, 1000, 4000, 60_000][tape.draw(6) as usize],
                    2 => 3_000 + tape.draw(9_000) as i64,
                    // bursts: every chunk carries the same second-resolution stamp
                    _ => 0,
                };
                let st = Step { cuts_id: 0, prev_seq: seq, prev_time_ms: t, duration_ms: d, attempts: 1 + tape.draw(5) as usize };
                ctx.class.u(seq as u64);
                ctx.class.u(d as u64);
                ctx.class.u(st.attempts as u64);
                rp.step(ctx, &st, &spec, &msg, "synthetic-history");
                if ctx.failed() {
                    return;
                }
                t += d;
                seq = if tape.draw(6) == 0 { 1 + tape.draw(200) as usize } else if seq >= 55 { 1 } else { seq + 1 };
                let _ = i;
            }
            // out-of-domain previous sequences and unparsable names
            for ps in [Some(0usize), Some(55), Some(56), Some(100), Some(999), None] {
                check_estimate(ctx, ps, t, &spec, &msg, Some((&rp.real, &rp.model)), "edge-sequences");
                if ctx.failed() {
                    return;
                }
            }
            // an identifier without an upload time: the estimate is relative to the (simulated) clock
            {
                let now_ms = s3sim::EPOCH_MS + 1000 * tape.draw(100_000) as i64 + tape.draw(1000) as i64;
                install_clock(Some(Rc::new(move || dt(now_ms))));
                let ps = 1 + tape.draw(55) as usize;
                let id = ChunkIdentifier::new("KDMX".into(), VolumeIndex::new(3), name_for(ps), None);
                let got = estimate_next_chunk_time(&id, &msg, Some(&rp.real)).map(|d| d.timestamp_millis());
                install_clock(None);
                let want = model_estimate(Some(ps), now_ms, &spec.cuts, Some(&rp.model));
                ctx.evaluations += 1;
                ctx.count("missing_upload_time_uses_clock");
                if got != want {
                    ctx.violate("estimate-without-upload-time", "clock".into(), format!("previous sequence {} without upload time at simulated now {}: estimate {:?}, reference {:?}", ps, now_ms, got, want));
                    return;
                }
            }
            ctx.nontrivial = nsteps >= 3 && ncuts > 0;
            ctx.class.u(ncuts as u64);
            for c in &spec.cuts {
                ctx.class.u(((c.super_res & 1) as u64) << 8 | (c.waveform as u64) << 4 | c.channel_configuration as u64);
            }
            if ctx.want_sample && ctx.nontrivial {
                ctx.sample = Some(json!({"source": "seeded synthetic history", "cuts": spec.cuts.iter().map(|c| json!({"chunks": if c.super_res & 1 == 1 { 6 } else { 3 }, "waveform": c.waveform, "channel": c.channel_configuration})).collect::<Vec<_>>(), "steps": nsteps}));
            }
        }
        let _ = vcp_from_seed;
    }
}
