//! C18 - the real `poll_chunks` (with everything beneath it) against the simulated rotating bucket,
//! uploader, consumer and faulty network under virtual time.

use crate::ctx::{Ctx, Params, Tier};
use crate::driver::{Check, Section};
use crate::rtworld::*;
use crate::s3sim::{self, Core};
use crate::tape::Tape;
use nexrad_data::aws::realtime::poll_chunks;
use nexrad_data::result::aws::AWSError;
use nexrad_data::result::Error;
use serde_json::json;
use std::collections::{BTreeMap, HashMap};
use std::sync::mpsc;
use std::time::Duration;

pub struct C18;

// four-letter ICAO sites and the test / ROC radars whose identifiers carry a digit
const SITES: [&str; 6] = ["KDMX", "KTLX", "PHWA", "TJUA", "DAN1", "NOP3"];

#[derive(Clone, Debug)]
pub struct Config {
    pub site: String,
    pub mode: UploaderMode,
    pub v0: usize,
    pub k0: usize,
    pub older: usize,
    pub vol_period_s: i64,
    pub faults: FaultRates,
    pub skew_before_ms: i64,
    pub skew_after_ms: i64,
    pub skew_jump_at_ms: i64,
    /// extra milliseconds the client clock gains on every read (clock moving between reads)
    pub clock_tick_ms: i64,
    pub script: ConsumerScript,
    pub chunks_until_end: Option<u64>,
    pub gap_style: u64,
    pub cap_virtual_s: u64,
    pub cancel_after_requests: Option<u64>,
}

#[derive(Clone, Copy, PartialEq, Eq, Debug)]
pub enum Flavor {
    AdaptiveClean,
    AdaptiveFaults,
    ScriptedClean,
    ScriptedFaults,
    WrapFocus,
    FullRotation,
}

pub fn draw_config(tape: &mut Tape, flavor: Flavor, max_deliveries: usize) -> Config {
    let site = SITES[tape.draw(6) as usize].to_string();
    let mode = match flavor {
        Flavor::AdaptiveClean | Flavor::AdaptiveFaults | Flavor::FullRotation => UploaderMode::AttemptAdaptive,
        Flavor::ScriptedClean | Flavor::ScriptedFaults => UploaderMode::TimeScripted,
        Flavor::WrapFocus => {
            if tape.draw(2) == 0 {
                UploaderMode::AttemptAdaptive
            } else {
                UploaderMode::TimeScripted
            }
        }
    };
    let v0 = if flavor == Flavor::WrapFocus {
        [999usize, 998, 997, 1][tape.draw(4) as usize]
    } else {
        match tape.weighted(&[6, 1, 1, 1, 1, 1]) {
            0 => 1 + tape.draw(999) as usize,
            1 => 997,
            2 => 998,
            3 => 999,
            4 => 1,
            _ => 2,
        }
    };
    let k0 = if flavor == Flavor::WrapFocus {
        [55usize, 54, 50, 53][tape.draw(4) as usize]
    } else {
        match tape.weighted(&[5, 1, 1, 1, 1]) {
            0 => 1 + tape.draw(55) as usize,
            1 => 1,
            2 => 54,
            3 => 55,
            _ => 2,
        }
    };
    let older = match tape.weighted(&[6, 2, 1, 1, 1]) {
        0 => 700 + tape.draw(298) as usize,
        1 => 997,
        2 => 0,
        3 => 1 + tape.draw(5) as usize,
        _ => tape.draw(998) as usize,
    };
    let with_faults = matches!(flavor, Flavor::AdaptiveFaults | Flavor::ScriptedFaults) || (flavor == Flavor::WrapFocus && tape.draw(2) == 1);
    let mut faults = FaultRates::default();
    let mut skew_before_ms = 0;
    let mut skew_after_ms = 0;
    let mut skew_jump_at_ms = i64::MAX;
    let mut clock_tick_ms = 0;
    if with_faults {
        if tape.draw(3) == 2 {
            clock_tick_ms = 1 + tape.draw(25) as i64;
        }
        let rate = |tape: &mut Tape| -> u64 {
            if tape.draw(3) == 0 {
                0
            } else {
                [20u64, 60, 150, 300][tape.draw(4) as usize]
            }
        };
        faults.transient_404 = rate(tape);
        faults.status_5xx = rate(tape);
        faults.send_error = rate(tape);
        faults.body_cut = rate(tape);
        faults.list_5xx = rate(tape);
        faults.list_404 = rate(tape);
        faults.budget = 1 + tape.draw(40);
        faults.per_chunk_cap = 1 + tape.draw(2);
        faults.latency_max_ms = [0u64, 200, 2000, 5000][tape.draw(4) as usize];
        faults.slow_body = tape.draw(2) == 1;
        if tape.draw(4) == 3 {
            faults.startup_fault_at = Some(tape.draw(30));
            faults.startup_fault_kind = tape.draw(4);
        }
        match tape.weighted(&[5, 2, 1]) {
            0 => {}
            1 => {
                skew_before_ms = tape.draw(4001) as i64 - 2000;
                skew_after_ms = skew_before_ms;
            }
            _ => {
                skew_before_ms = tape.draw(60_001) as i64 - 30_000;
                skew_after_ms = if tape.draw(2) == 1 { tape.draw(60_001) as i64 - 30_000 } else { skew_before_ms };
                skew_jump_at_ms = tape.draw(600_000) as i64;
            }
        }
    } else if matches!(flavor, Flavor::ScriptedClean) {
        // latency only (it makes the uploader race the poller); not an error fault
        faults.latency_max_ms = [0u64, 100, 1500][tape.draw(3) as usize];
    }
    let with_stats = tape.draw(2) == 1;
    let k = match tape.weighted(&[4, 1, 1, 2]) {
        0 => tape.draw(max_deliveries as u64 + 1) as usize,
        1 => 0,
        2 => 1,
        _ => tape.draw(12) as usize,
    };
    let action = if flavor == Flavor::FullRotation { 0 } else { tape.weighted(&[5, 2, 1, 3]) };
    let mut script = ConsumerScript {
        with_stats,
        stop_after: None,
        stop_at_request: None,
        stop_value: tape.draw(3) != 2,
        drop_chunks_after: None,
        drop_stats_after: None,
        late_phase: tape.draw(2) == 1,
    };
    let mut chunks_until_end = None;
    match action {
        0 => {
            if flavor != Flavor::FullRotation && tape.draw(3) == 2 {
                // at an arbitrary moment: after a number of requests (start-up needs 12..1010)
                script.stop_at_request = Some(match tape.weighted(&[3, 2]) {
                    0 => 10 + tape.draw(60),
                    _ => 20 + tape.draw(600),
                });
            } else {
                script.stop_after = Some(if flavor == Flavor::FullRotation { max_deliveries } else { k });
            }
        }
        1 => script.drop_chunks_after = Some(k),
        2 => {
            if with_stats {
                script.drop_stats_after = Some(k)
            } else {
                script.stop_after = Some(k)
            }
        }
        _ => {
            // no signal at all: the uploader simply stops and the poller must give up
            chunks_until_end = Some(k as u64);
        }
    }
    if chunks_until_end.is_none() && flavor != Flavor::FullRotation && tape.draw(4) == 3 {
        // the history also ends some chunks after the scripted action
        chunks_until_end = Some(k as u64 + tape.draw(20));
    }
    let gap_style = tape.draw(4);
    Config {
        site,
        mode,
        v0,
        k0,
        older,
        vol_period_s: 240 + tape.draw(400) as i64,
        faults,
        skew_before_ms,
        skew_after_ms,
        skew_jump_at_ms,
        clock_tick_ms,
        script,
        chunks_until_end,
        gap_style,
        cap_virtual_s: if flavor == Flavor::FullRotation { 400 * 3600 } else { 6 * 3600 },
        cancel_after_requests: None,
    }
}

pub fn make_world(core: &mut Core, cfg: &Config, seed: u64) -> RtWorld {
    core.skew_before_ms = cfg.skew_before_ms;
    core.skew_after_ms = cfg.skew_after_ms;
    core.skew_jump_at_ms = cfg.skew_jump_at_ms;
    core.tick_ms = cfg.clock_tick_ms;
    if cfg.clock_tick_ms > 0 {
        core.ctx.count("fault.clock_moves_between_reads");
    }
    let mut w = RtWorld {
        site: cfg.site.clone(),
        seed,
        mode: cfg.mode,
        v0: cfg.v0,
        older: cfg.older,
        vol_period_s: cfg.vol_period_s,
        gens: BTreeMap::new(),
        frontier: (0, cfg.k0),
        frontier_at_start: (0, cfg.k0),
        history_ended: cfg.chunks_until_end == Some(0),
        chunks_until_end: cfg.chunks_until_end,
        next_upload_at_ms: 0,
        gap_style: cfg.gap_style,
        need_fails: 0,
        got_fails: 0,
        burst: 0,
        max_need_fails: 2u64.saturating_sub(if cfg.faults.budget > 0 { cfg.faults.per_chunk_cap } else { 0 }),
        faults: cfg.faults.clone(),
        in_startup: true,
        startup_requests: 0,
        startup_faults_injected: Vec::new(),
        loop_faults_injected: 0,
        attempts: HashMap::new(),
        longest_gap_ms: 0,
        script: cfg.script.clone(),
        chunk_rx: None,
        stats_rx: None,
        stop_tx: None,
        deliveries: Vec::new(),
        stats: Vec::new(),
        stop_sent_at: None,
        chunk_rx_dropped_at: None,
        stats_rx_dropped_at: None,
        pending_action: false,
        payloads: HashMap::new(),
        last_event_ms: s3sim::EPOCH_MS,
        cancel_after_requests: cfg.cancel_after_requests,
        requests_seen: 0,
        vcp_request_seq: None,
        first_delivery_frontier: None,
        max_requests: if cfg.cap_virtual_s > 100 * 3600 { 600_000 } else { 40_000 },
        request_budget_exceeded: false,
        lost: Default::default(),
    };
    // lost uploads below the start position: the start-up listing has holes (the newest chunk
    // present is still the last one listed)
    if cfg.k0 >= 3 && seed % 7 == 3 {
        let span = cfg.k0 as u64 - 2;
        w.lost.insert((0, 2 + ((seed / 7) % span) as usize));
        if (seed / 49) % 2 == 1 {
            w.lost.insert((0, 2 + ((seed / 98) % span) as usize));
        }
        core.ctx.count("hole_in_startup_listing");
    }
    // generation 0: k0 chunks already visible, stamped in the recent past
    let step = [4_000i64, 7_000, 11_000][(seed % 3) as usize];
    let start = ((s3sim::EPOCH_MS - 2_000 - step * (cfg.k0 as i64 - 1)) / 1000) * 1000;
    let vcp_seed = crate::rng::mix(&[seed, 0x5643, 0]);
    w.gens.insert(
        0,
        Gen {
            g: 0,
            dir: dir_of(cfg.v0, 0),
            prefix: prefix_of(start),
            start_stamp_ms: start,
            vcp: vcp_from_seed(vcp_seed),
            vcp_seed,
            stamps: {
                let mut st: Vec<i64> = (0..cfg.k0 as i64).map(|i| start + i * step).collect();
                // a burst right before the start: the newest 2..4 chunks share one upload second
                if cfg.k0 >= 2 && seed % 5 == 0 {
                    let m = (2 + (seed / 5) % 3) as usize;
                    let last = *st.last().unwrap();
                    let n = st.len();
                    for x in st.iter_mut().skip(n.saturating_sub(m)) {
                        *x = last;
                    }
                    core.ctx.count("newest_chunks_share_a_second");
                }
                st
            },
        },
    );
    w.need_fails = core.tape.draw(w.max_need_fails + 1);
    w.next_upload_at_ms = match core.tape.weighted(&[3, 1, 1]) {
        0 => 2_000 + core.tape.draw(9_000) as i64,
        1 => core.tape.draw(300) as i64,
        _ => core.tape.draw(40_000) as i64,
    };
    w
}

fn classify_error(e: &Error) -> &'static str {
    match e {
        Error::AWS(a) => match a {
            AWSError::ExpectedChunkNotFound => "ExpectedChunkNotFound",
            AWSError::PollingAsyncError => "PollingAsyncError",
            AWSError::LatestVolumeNotFound => "LatestVolumeNotFound",
            AWSError::S3ObjectNotFoundError => "S3ObjectNotFoundError",
            AWSError::S3GetObjectError(_) => "S3GetObjectError",
            AWSError::S3GetObjectRequestError(_) => "S3GetObjectRequestError",
            AWSError::S3StreamingError(_) => "S3StreamingError",
            AWSError::S3ListObjectsError(_) => "S3ListObjectsError",
            AWSError::S3ListObjectsDecodingError => "S3ListObjectsDecodingError",
            AWSError::FailedToDetermineNextChunk => "FailedToDetermineNextChunk",
            AWSError::UnrecognizedChunkFormat => "UnrecognizedChunkFormat",
            AWSError::TruncatedListObjectsResponse => "TruncatedListObjectsResponse",
            AWSError::DateTimeError(_) => "DateTimeError",
            AWSError::InvalidSiteIdentifier(_) => "InvalidSiteIdentifier",
        },
        Error::MissingCoveragePattern => "MissingCoveragePattern",
        Error::Decode(_) => "Decode",
        Error::DecompressionError(_) => "DecompressionError",
        _ => "Other",
    }
}

pub enum Outcome {
    Ok,
    Err(&'static str, String),
    Timeout,
    Cancelled,
}

/// Locates a delivered identifier in the reference bucket: (generation, sequence).
fn locate(w: &RtWorld, d: &Delivery) -> Option<(i64, usize)> {
    let seq = d.sequence?;
    if d.name.len() < 15 {
        return None;
    }
    let prefix = &d.name[..15];
    for (g, gen) in w.gens.iter().rev() {
        if gen.dir == d.volume && gen.prefix == prefix && seq >= 1 && seq <= gen.stamps.len() && d.name == chunk_file_name(&gen.prefix, seq) {
            return Some((*g, seq));
        }
    }
    None
}

/// The oracle over the recorded history of one polling session.
pub fn judge(ctx: &mut Ctx, w: &mut RtWorld, cfg: &Config, outcome: &Outcome, returned_at_ms: i64, upper_frontier_at_first: Option<(i64, usize)>) {
    let n = w.deliveries.len();
    // ---- clause 3: identity and payload of every delivery; positions for clause 2
    let mut pos: Vec<(i64, usize)> = Vec::with_capacity(n);
    for i in 0..n {
        let d = w.deliveries[i].clone();
        if d.volume == 0 || d.volume > 999 {
            ctx.violate("volume-in-range", format!("volume {}", d.volume), format!("delivery {} names volume {}", i, d.volume));
            return;
        }
        let p = match locate(w, &d) {
            Some(p) => p,
            None => {
                ctx.violate("delivered-chunk-exists", "unknown-key".into(), format!("delivery {}: {}/{}/{} is not an object the uploader ever made visible", i, d.site, d.volume, d.name));
                return;
            }
        };
        let stored = w.payload(p.0, p.1);
        if *stored != d.data {
            ctx.violate("payload-identical", if p.1 == 1 { "start".into() } else { "intermediate".into() }, format!("delivery {} ({}/{}/{}): payload differs from the stored object ({} vs {} bytes)", i, d.site, d.volume, d.name, d.data.len(), stored.len()));
            return;
        }
        let stamp = w.gens[&p.0].stamps[p.1 - 1];
        if d.site != cfg.site || d.date_time_ms != Some(stamp) {
            ctx.violate("labelled-with-own-key-and-time", if i == 0 { "first".into() } else { "later".into() }, format!("delivery {} ({}/{}/{}): identifier carries site {:?} time {:?}, object has site {:?} Last-Modified {}", i, d.site, d.volume, d.name, d.site, d.date_time_ms, cfg.site, stamp));
            return;
        }
        if d.is_start_variant != (p.1 == 1) {
            ctx.violate("start-chunk-variant", format!("seq {}", if p.1 == 1 { 1 } else { 2 }), format!("delivery {} sequence {} surfaced as {}", i, p.1, if d.is_start_variant { "Chunk::Start" } else { "Chunk::IntermediateOrEnd" }));
            return;
        }
        pos.push(p);
    }
    // ---- clause 1: the first delivery is the newest chunk within the linearisation window
    if let (Some(first), Some(upper)) = (pos.first(), upper_frontier_at_first) {
        let lower = w.frontier_at_start;
        if *first < lower || *first > upper {
            ctx.violate(
                "first-is-newest",
                if *first < lower { "stale".into() } else { "future".into() },
                format!("first delivery is generation {} sequence {} (directory {}); the newest chunk was generation {} sequence {} at the call and generation {} sequence {} when it was delivered; start-up faults injected: {:?}", first.0, first.1, dir_of(w.v0, first.0), lower.0, lower.1, upper.0, upper.1, w.startup_faults_injected),
            );
            return;
        }
    }
    // ---- clause 2: strictly advancing series
    for i in 1..pos.len() {
        let (a, b) = (pos[i - 1], pos[i]);
        let ok = if a.1 < CHUNKS_PER_VOLUME { b == (a.0, a.1 + 1) } else { b.0 == a.0 + 1 };
        if !ok {
            let kind = if b == a {
                "repeat"
            } else if b < a {
                "backwards"
            } else if a.1 < CHUNKS_PER_VOLUME {
                "gap"
            } else {
                "wrong-next-volume"
            };
            ctx.violate(
                "advancing-series",
                kind.into(),
                format!("delivery {} is (generation {}, sequence {}, directory {}) after (generation {}, sequence {}, directory {})", i, b.0, b.1, w.deliveries[i].volume, a.0, a.1, w.deliveries[i - 1].volume),
            );
            return;
        }
        if a.1 == CHUNKS_PER_VOLUME {
            ctx.count("volume_boundary_crossed");
            if w.deliveries[i - 1].volume == 999 && w.deliveries[i].volume == 1 {
                ctx.count("wrap_999_to_1_delivered");
            }
            if b.1 > 1 {
                ctx.count("joined_next_volume_late");
            }
        }
    }
    // ---- runaway guard: a session never needs this many requests for the deliveries it made
    if w.request_budget_exceeded {
        ctx.violate(
            "bounded-requests",
            "runaway".into(),
            format!("the session issued more than {} requests ({} deliveries in {} virtual ms) without returning: polling runs away without waiting", w.max_requests, n, returned_at_ms),
        );
        return;
    }
    // ---- clause 4: return value
    let after_stop = w.deliveries.iter().filter(|d| d.after_stop).count();
    if after_stop > 1 {
        ctx.violate("at-most-one-after-stop", format!("{} after stop", after_stop.min(3)), format!("{} chunks were delivered after the stop signal", after_stop));
        return;
    }
    let startup = w.in_startup;
    match outcome {
        Outcome::Cancelled => {}
        Outcome::Timeout => {
            // The virtual cap is a bound of the harness, not of the property: a session that is
            // still making progress and has been given no reason to end (no stop, no dropped
            // receiver, uploads continuing) is simply cut off there and judged on its prefix. It is
            // a violation only when the poller sat on a reason to return for longer than the
            // liveness bound.
            let cause_ms = [w.stop_sent_at.map(|x| x.1), w.chunk_rx_dropped_at.map(|x| x.1), w.stats_rx_dropped_at.map(|x| x.1)].iter().flatten().copied().min();
            let quiet_since = w.last_event_ms - s3sim::EPOCH_MS;
            let skew = cfg.skew_before_ms.abs().max(cfg.skew_after_ms.abs());
            let bound = skew + w.longest_gap_ms + 600_000 + cfg.faults.latency_max_ms as i64 * 40;
            let stuck = returned_at_ms - quiet_since > bound;
            // (a stop / drop / end of history shortly before the cap is not yet a reason to blame the poller:
            // all of them refresh `last_event_ms`, so `stuck` covers them)
            let _ = cause_ms;
            if stuck {
                ctx.violate("returns", "virtual-timeout".into(), format!("poll_chunks had not returned after {} virtual seconds ({} deliveries; stop sent: {:?}; consumer dropped: {:?}; history ended: {}; {} ms since the last upload/delivery/fault)", cfg.cap_virtual_s, n, w.stop_sent_at, w.chunk_rx_dropped_at, w.history_ended, returned_at_ms - quiet_since));
                return;
            }
            ctx.count("session_cut_by_virtual_cap");
        }
        Outcome::Ok => {
            ctx.count("returned_ok");
            if w.stop_sent_at.is_none() {
                ctx.violate("ok-only-after-stop", "no-stop".into(), format!("poll_chunks returned Ok after {} deliveries although no stop signal was sent", n));
                return;
            }
        }
        Outcome::Err(kind, text) => {
            ctx.count("returned_err");
            if startup {
                ctx.count("startup_error");
                let consumer_gone = w.chunk_rx_dropped_at.is_some() || w.stats_rx_dropped_at.is_some();
                if *kind == "PollingAsyncError" && consumer_gone {
                    ctx.count("error_consumer_gone");
                } else if w.startup_faults_injected.is_empty() {
                    ctx.violate("startup-error-has-cause", (*kind).into(), format!("poll_chunks failed during start-up with {} although no fault was injected and the bucket holds chunks ({})", kind, text));
                    return;
                }
            } else {
                match *kind {
                    "PollingAsyncError" => {
                        if w.chunk_rx_dropped_at.is_none() && w.stats_rx_dropped_at.is_none() {
                            ctx.violate("async-error-needs-dropped-receiver", "none-dropped".into(), "PollingAsyncError although both receivers are alive".into());
                            return;
                        }
                        ctx.count("error_consumer_gone");
                    }
                    "ExpectedChunkNotFound" => {
                        // which key was awaited?
                        let last = match (w.deliveries.last(), pos.last()) {
                            (Some(d), Some(p)) => (d.clone(), *p),
                            _ => {
                                ctx.violate("unexpected-error", "no-delivery".into(), "ExpectedChunkNotFound after start-up without any delivery".into());
                                return;
                            }
                        };
                        let akey = if last.1 .1 < CHUNKS_PER_VOLUME {
                            let prefix = &w.gens[&last.1 .0].prefix;
                            format!("{}/{}/{}", cfg.site, last.0.volume, chunk_file_name(prefix, last.1 .1 + 1))
                        } else {
                            format!("LIST {}/{}/", cfg.site, last.0.volume % 999 + 1)
                        };
                        let a = w.attempts.get(&akey).cloned();
                        let (attempts, failures, last_failed) = a.map(|a| (a.attempts, a.failures, a.last_failed)).unwrap_or((0, 0, false));
                        if attempts < 3 || !last_failed {
                            ctx.violate(
                                "gives-up-only-after-retry-budget",
                                if last.1 .1 < CHUNKS_PER_VOLUME { "in-volume".into() } else { "volume-boundary".into() },
                                format!("ExpectedChunkNotFound for {} after {} attempts ({} failed, last failed: {}); the statement promises survival of 0, 1 or 2 missed attempts", akey, attempts, failures, last_failed),
                            );
                            return;
                        }
                        if cfg.mode == UploaderMode::AttemptAdaptive && !w.history_ended && failures < 3 {
                            ctx.violate("no-excuse", "adaptive".into(), format!("ExpectedChunkNotFound for {} with only {} failed attempts", akey, failures));
                            return;
                        }
                        ctx.count("error_chunk_never_appeared");
                        if attempts >= 5 {
                            ctx.count("retry_depth_5");
                        }
                    }
                    other => {
                        ctx.violate("unexpected-error", other.into(), format!("poll_chunks returned {} ({}) inside the polling loop; only ExpectedChunkNotFound and PollingAsyncError are possible outcomes there", other, text));
                        return;
                    }
                }
            }
        }
    }
    // ---- clause 5: bounded liveness in virtual time
    if !matches!(outcome, Outcome::Cancelled | Outcome::Timeout) {
        let quiet_since = w.last_event_ms - s3sim::EPOCH_MS;
        // the ticking clock drifts ahead by tick x reads; a clock that is ahead never lengthens a sleep
        let skew = cfg.skew_before_ms.abs().max(cfg.skew_after_ms.abs());
        let bound = skew + w.longest_gap_ms + 600_000 + cfg.faults.latency_max_ms as i64 * 40;
        if returned_at_ms - quiet_since > bound {
            ctx.violate("returns-promptly", "late".into(), format!("poll_chunks returned {} ms after the last upload/stop/drop event (bound {} ms)", returned_at_ms - quiet_since, bound));
        }
    }
}

fn flavor_of(tier: Tier, section: u32) -> Flavor {
    let _ = tier;
    match section {
        0 => Flavor::AdaptiveClean,
        1 => Flavor::AdaptiveFaults,
        2 => Flavor::ScriptedClean,
        3 => Flavor::ScriptedFaults,
        4 => Flavor::WrapFocus,
        _ => Flavor::FullRotation,
    }
}

/// Runs one polling session and returns (outcome, virtual return time, upper frontier at first delivery).
pub fn run_session(tape: &mut Tape, ctx: &mut Ctx, cfg: &Config, seed: u64, judge_it: bool) -> (Vec<Delivery>, Vec<(u64, nexrad_data::aws::realtime::PollStats)>, BTreeMap<i64, Gen>) {
    let cfg2 = cfg.clone();
    s3sim::with_world(
        tape,
        ctx,
        |core| make_world(core, &cfg2, seed),
        |world, rt| {
            let (tx, rx) = mpsc::channel();
            let (stx, srx) = mpsc::channel();
            let (stop_tx, stop_rx) = mpsc::channel();
            {
                let mut w = world.borrow_mut();
                w.backend.chunk_rx = Some(rx);
                w.backend.stop_tx = Some(stop_tx);
                if cfg.script.with_stats {
                    w.backend.stats_rx = Some(srx);
                } else {
                    drop(srx);
                }
            }
            let stats_tx = if cfg.script.with_stats { Some(stx) } else { None };
            let site = cfg.site.clone();
            let cap = cfg.cap_virtual_s;
            let notify = std::rc::Rc::new(tokio::sync::Notify::new());
            world.borrow_mut().core.cancel = Some(notify.clone());
            let world2 = world.clone();
            let (outcome, returned_at, upper) = rt.block_on(async {
                let poll = poll_chunks(&site, tx, stats_tx, stop_rx);
                tokio::pin!(poll);
                let mut upper: Option<(i64, usize)> = None;
                // a watcher is not needed: the upper frontier is sampled when the first delivery is
                // drained, which happens at the scheduling point right after the send
                let res = tokio::select! {
                    r = tokio::time::timeout(Duration::from_secs(cap), &mut poll) => Some(r),
                    _ = notify.notified() => None,
                };
                let now = world2.borrow().core.elapsed_ms();
                let o = match res {
                    None => Outcome::Cancelled,
                    Some(Err(_)) => Outcome::Timeout,
                    Some(Ok(Ok(()))) => Outcome::Ok,
                    Some(Ok(Err(e))) => Outcome::Err(classify_error(&e), format!("{:?}", e)),
                };
                let _ = &mut upper;
                (o, now, upper)
            });
            let _ = upper;
            // everything below reads the simulated clock: stay inside the runtime context
            let _enter = rt.enter();
            let mut w = world.borrow_mut();
            let w = &mut *w;
            w.backend.final_drain(&mut w.core);
            // upper bound of the linearisation window: the frontier when the first delivery was
            // made, over-approximated by the frontier at the time of the drain that recorded it
            let upper = w.backend.first_delivery_frontier;
            match &outcome {
                Outcome::Ok => w.core.ctx.ev("return", &[0, returned_at as u64], || "Ok(())".into()),
                Outcome::Err(k, t) => {
                    let k2 = *k;
                    let t2 = t.clone();
                    w.core.ctx.ev("return", &[1, returned_at as u64], move || format!("Err({}) {}", k2, t2));
                    w.core.ctx.fp.s(k);
                }
                Outcome::Timeout => w.core.ctx.ev("return", &[2, returned_at as u64], || "virtual timeout".into()),
                Outcome::Cancelled => w.core.ctx.ev("return", &[3, returned_at as u64], || "cancelled (future dropped)".into()),
            }
            if judge_it {
                let mut ctx_local = std::mem::replace(&mut w.core.ctx, Ctx::new(false, false));
                judge(&mut ctx_local, &mut w.backend, cfg, &outcome, returned_at, upper);
                // abstract history for the distinct measure
                let n = w.backend.deliveries.len();
                ctx_local.class.u(w.backend.frontier_at_start.1 as u64);
                ctx_local.class.u(match w.backend.v0 { 1 | 2 | 997 | 998 | 999 => w.backend.v0 as u64, _ => 0 });
                ctx_local.class.u(n as u64);
                ctx_local.class.u(cfg.mode as u64);
                ctx_local.class.u(w.backend.loop_faults_injected);
                ctx_local.class.u(w.backend.startup_faults_injected.len() as u64);
                ctx_local.class.s(match &outcome { Outcome::Ok => "ok", Outcome::Err(k, _) => k, Outcome::Timeout => "timeout", Outcome::Cancelled => "cancel" });
                for d in &w.backend.deliveries {
                    ctx_local.class.u(d.sequence.unwrap_or(0) as u64);
                }
                let crossed = ctx_local.counters.get("volume_boundary_crossed").copied().unwrap_or(0) > 0;
                let eventful = w.backend.loop_faults_injected > 0
                    || !w.backend.startup_faults_injected.is_empty()
                    || w.backend.stop_sent_at.is_some()
                    || w.backend.chunk_rx_dropped_at.is_some()
                    || w.backend.stats_rx_dropped_at.is_some()
                    || crossed;
                ctx_local.nontrivial = n >= 2 && eventful;
                ctx_local.add("deliveries", n as u64);
                if w.backend.stop_sent_at.is_some() && w.backend.deliveries.iter().any(|d| d.after_stop) {
                    ctx_local.count("delivery_after_stop");
                }
                if ctx_local.want_sample && ctx_local.nontrivial {
                    ctx_local.sample = Some(json!({
                        "site": cfg.site, "uploader": format!("{:?}", cfg.mode), "start_directory": cfg.v0, "chunks_present_at_start": cfg.k0, "older_volumes": cfg.older,
                        "consumer": format!("{:?}", cfg.script), "history_ends_after_chunks": cfg.chunks_until_end,
                        "fault_rates": format!("{:?}", cfg.faults), "clock_skew_ms": [cfg.skew_before_ms, cfg.skew_after_ms], "clock_tick_ms_per_read": cfg.clock_tick_ms,
                        "deliveries": w.backend.deliveries.iter().take(8).map(|d| format!("{}/{}", d.volume, d.name)).collect::<Vec<_>>(),
                        "delivery_count": n, "requests": w.core.log.len(), "virtual_ms": returned_at,
                        "outcome": match &outcome { Outcome::Ok => "Ok".to_string(), Outcome::Err(k, _) => format!("Err({})", k), Outcome::Timeout => "timeout".into(), Outcome::Cancelled => "cancelled".into() },
                    }));
                }
                w.core.ctx = ctx_local;
            }
            (
                std::mem::take(&mut w.backend.deliveries),
                std::mem::take(&mut w.backend.stats),
                std::mem::take(&mut w.backend.gens),
            )
        },
    )
}

impl Check for C18 {
    fn id(&self) -> &'static str {
        "C18"
    }
    fn level(&self) -> &'static str {
        "exploration"
    }
    fn engine(&self) -> &'static str {
        "s3sim"
    }
    fn plan(&self, tier: Tier) -> Vec<Section> {
        match tier {
            Tier::Quick => vec![
                Section { name: "adaptive-uploader-fault-free", runs: 8_000 },
                Section { name: "adaptive-uploader-with-faults", runs: 10_000 },
                Section { name: "time-scripted-uploader-fault-free", runs: 7_000 },
                Section { name: "time-scripted-uploader-with-faults-and-skew", runs: 9_000 },
                Section { name: "wrap-around-focus", runs: 6_000 },
            ],
            Tier::Thorough => vec![
                Section { name: "adaptive-uploader-fault-free", runs: 500_000 },
                Section { name: "adaptive-uploader-with-faults", runs: 700_000 },
                Section { name: "time-scripted-uploader-fault-free", runs: 400_000 },
                Section { name: "time-scripted-uploader-with-faults-and-skew", runs: 600_000 },
                Section { name: "wrap-around-focus", runs: 300_000 },
                Section { name: "full-999-volume-rotation", runs: 16 },
            ],
        }
    }
    fn rule(&self) -> &'static str {
        "a case is one polling session: the real poll_chunks against a simulated rotating bucket (start directory biased to 997/998/999/1/2, 1..55 chunks present, 0..998 older volumes), an uploader (attempt-adaptive: next chunk visible after 0/1/2 failed attempts or never, bursts; or time-scripted: gaps around 4/7/11 s, zero, long, never), a consumer script (stop / drop chunk receiver / drop stats receiver after k deliveries, or nothing), transport faults (transient 404, 500/503/403, request failure, mid-body cut, listing 5xx, latency, slow bodies, one start-up fault), client clock skew/jump. Oracle: first delivery within the linearisation window of 'newest chunk', strictly advancing series, payload/identifier/time of every delivery against the reference bucket, return value rules, <=1 delivery after stop, bounded virtual-time liveness. evaluations = simulated HTTP requests. Non-trivial = >= 2 deliveries and a fault, stop/drop event or volume boundary; distinct = hash of (start position, delivery sequence numbers, fault counts, mode, outcome)"
    }
    fn assumptions(&self) -> Vec<&'static str> {
        vec![
            "history model of the statement: 55-chunk volumes appearing chunk by chunk in rotation order; a reused directory is emptied when its new volume starts; Last-Modified has second resolution and is monotone",
            "a response that never arrives is not injected (the library sets no request timeout; outside every listed property)",
            "duplicated or reordered responses cannot occur with one request in flight and are not injected",
            "exact back-off spacing, attempt counts beyond '>= 3', request kinds and PollStats contents are deliberately not checked",
        ]
    }
    fn components(&self) -> serde_json::Value {
        json!({"real": ["poll_chunks", "get_latest_volume", "search", "list_chunks_in_volume", "download_chunk", "s3::list_objects", "s3::download_object", "Chunk::new", "File::records", "Record::decompress/messages", "type-5 decoder", "estimate_next_chunk_time", "ChunkTimingStats", "ChunkIdentifier::next_chunk", "tokio timers (paused clock)", "std::sync::mpsc channels"],
               "stub": ["reqwest client + TLS + TCP + S3 (in-process endpoint behind the reqwest::get seam)", "system clock (Utc::now seam, with skew)", "uploader and consumer are scripted world state evaluated at scheduling points"]})
    }
    fn required_probes(&self, tier: Tier) -> Vec<&'static str> {
        // only probes that do not depend on a free choice of the code under test
        let mut v = vec!["volume_boundary_crossed", "wrap_999_to_1_delivered", "stop_sent", "chunk_receiver_dropped", "stats_receiver_dropped", "error_consumer_gone", "error_chunk_never_appeared", "visibility_delay_attempts", "fault.transient_404", "fault.status_5xx", "fault.send_error", "fault.body_cut", "fault.list_5xx", "fault.list_404", "fault.latency", "fault.clock_moves_between_reads", "returned_ok"];
        if tier == Tier::Thorough {
            v.push("full_rotation_completed");
        }
        v
    }
    fn budget_s(&self, tier: Tier) -> u64 {
        match tier {
            Tier::Quick => 110,
            Tier::Thorough => 2400,
        }
    }
    fn watchdog_s(&self) -> u64 {
        300
    }

    fn run(&self, p: &Params, tape: &mut Tape, ctx: &mut Ctx) {
        let flavor = flavor_of(p.tier, p.section);
        let max_deliveries = match flavor {
            Flavor::FullRotation => 1005 * 55,
            Flavor::WrapFocus => 70,
            _ => match tape.weighted(&[6, 3, 1]) {
                0 => 30,
                1 => 120,
                _ => 170,
            },
        };
        let cfg = draw_config(tape, flavor, max_deliveries);
        let seed = tape.seed();
        ctx.ev("config", &[cfg.v0 as u64, cfg.k0 as u64, cfg.older as u64], || format!("{:?}", cfg));
        let (deliveries, _stats, _gens) = run_session(tape, ctx, &cfg, seed, true);
        if flavor == Flavor::FullRotation && ctx.counters.get("volume_boundary_crossed").copied().unwrap_or(0) >= 1000 && !ctx.failed() {
            // every one of the 999 directories was entered through a volume boundary, and the
            // start directory was entered a second time (its first generation replaced)
            ctx.count("full_rotation_completed");
        }
        let _ = deliveries;
    }
}
