use crate::driver::Check;

pub mod c03;
pub mod c13;
pub mod c15;

pub fn all() -> Vec<&'static dyn Check> {
    vec![&c03::C03, &c13::C13, &c15::C15]
}
