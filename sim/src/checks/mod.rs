use crate::driver::Check;

pub mod c15;

pub fn all() -> Vec<&'static dyn Check> {
    vec![&c15::C15]
}
