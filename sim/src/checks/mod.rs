use crate::driver::Check;

pub mod c03;
pub mod c04;
pub mod c06;
pub mod c13;
pub mod c15;
pub mod c17;
pub mod c18;
pub mod c19;

pub fn all() -> Vec<&'static dyn Check> {
    vec![&c03::C03, &c04::C04, &c06::C06, &c13::C13, &c15::C15, &c17::C17, &c18::C18, &c19::C19]
}
