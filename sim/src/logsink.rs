//! A `log` sink that can be switched on per run. The `log` macros evaluate their arguments only
//! when a logger accepts the record, so code such as `trace!("{:?}", header)` runs its `Debug`
//! implementations only for users who enabled trace logging. A quarter of the runs execute with
//! the sink on (decided from the run seed, so a replay file reproduces it); the formatted text is
//! discarded.

use log::{Level, LevelFilter, Log, Metadata, Record};
use std::fmt::Write;
use std::sync::atomic::{AtomicBool, Ordering::Relaxed};

static ON: AtomicBool = AtomicBool::new(false);

struct Sink;

impl Log for Sink {
    fn enabled(&self, m: &Metadata) -> bool {
        ON.load(Relaxed) && m.level() <= Level::Trace
    }
    fn log(&self, r: &Record) {
        if ON.load(Relaxed) {
            // format into a scratch buffer: this is what evaluates the arguments
            let mut s = String::new();
            let _ = write!(s, "{}", r.args());
            std::hint::black_box(&s);
        }
    }
    fn flush(&self) {}
}

static SINK: Sink = Sink;

pub fn install() {
    let _ = log::set_logger(&SINK);
    log::set_max_level(LevelFilter::Trace);
}

pub fn set(on: bool) {
    ON.store(on, Relaxed);
}

pub fn is_on() -> bool {
    ON.load(Relaxed)
}
